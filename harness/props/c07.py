"""C07 — save, load, save again yields the same bundle and the same observable process."""
import copy
import itertools
import json
import pickle
import time
import uuid
import warnings

import coqio
from coqio import c_str, c_bool, c_nat, c_list, c_opt, c_pair, c_val, c_exn

PROP = 'C07'
CORR_MODULE = 'Savable ProcSave Corr_C07'
CASE_TYPE = 'C07_case'
MODEL_FN = 'c07_model'
SHARD = 15
RULE = ('a case = (scripted Process or WorkChain program, inputs, listeners, schedule of ticks / pause / play / kill / resume / awaitable completions) x '
        'serialisation medium (deep copy, pickle, YAML) x loader configuration (global, save-context, load-context loader); the real process is '
        'snapshotted at every state entry and after every schedule event; each snapshot: Bundle -> medium -> unbundle -> Bundle -> medium -> unbundle -> Bundle; '
        'non-trivial = at least one savable snapshot outside the CREATED state; distinct = distinct case')
ASSUMPTIONS = ['tblib is not installed (process_states._HAS_TBLIB is False): a restored Excepted state has no traceback object',
               'member values, inputs, outputs, context, wait data, step arguments are plain data (None, bool, int, str, tuple, list, dict with str keys); '
               'exceptions are compared by (type, args); dict key order is not compared (Python dict equality)',
               'step functions and callbacks are methods of the process (they are saved by name and looked up with getattr on the loaded process)',
               'a work chain waiting on live awaitables cannot be saved by the code (deepcopy of a future raises): outside the domain, checked as such',
               'the stepper of a work chain is opaque in the model (round trip = property C08); its saved state stands for it',
               'deepcopy / pickle / YAML are the identity on canonical bundles: tested on every snapshot (hypothesis medium_id of the theorems)']
TRUSTED_EXTRA = ['abstraction function harness/props/c07.py:abstract (reads the private attributes of the real process into the model record)',
                 'canonicalisation of real bundles (sorted keys, creation time / uuid / classes as tokens, exceptions as (type, args), traceback text dropped)']

MEDIA = ('deepcopy', 'pickle', 'yaml')
# (global loader, save-context loader, load-context loader)
LOADERS = (('D', None, None), ('D', 'C', None), ('D', 'C', 'C'), ('C', None, None), ('D', 'D', None), ('C', 'D', None), ('C', 'C', 'C'))
TB = '<traceback>'


# ---------------------------------------------------------------- canonical values
def enc(v):
    """Python value -> JSON-able canonical form (dict keys sorted, tuples / frozen dicts marked, opaque things as tokens)."""
    from plumpy.utils import Frozendict
    if v is None or v is True or v is False or isinstance(v, (int, str)):
        return v
    if isinstance(v, float):
        return 'float:%r' % v
    if isinstance(v, uuid.UUID):
        return 'uuid:%s' % v
    if isinstance(v, Frozendict):
        return {'__frozen__': {k: enc(v[k]) for k in sorted(v)}}
    if isinstance(v, dict):
        if not all(isinstance(k, str) for k in v):
            raise TypeError('non-string key in %r' % (v,))
        return {k: enc(v[k]) for k in sorted(v)}
    if isinstance(v, tuple):
        return {'__tuple__': [enc(x) for x in v]}
    if isinstance(v, list):
        return [enc(x) for x in v]
    if isinstance(v, type):
        return 'class:%s:%s' % (v.__module__, v.__name__)
    raise TypeError('value outside the bundle domain: %r' % (v,))


def dec(v):
    import portgen
    return portgen.decode(v)


def canon_exc(e):
    c = coqio.canon_exception(e)
    if c[0] == 'other':
        raise TypeError('exception outside the model: %r' % (e,))
    return c


def canon_listeners(ls):
    out = [{'__tuple__': ['%s:%s' % (type(l).__module__, type(l).__name__), enc(l._params)]} for l in ls]
    return sorted(out, key=lambda x: json.dumps(x, sort_keys=True))


def fut_abs(f):
    if not f.done():
        return ['pending']
    if f.cancelled():
        return ['cancelled']
    e = f.exception()
    if e is not None:
        return ['exn', canon_exc(e)]
    return ['result', enc(f.result())]


# ---------------------------------------------------------------- canonical bundles (node JSON)
# keys under which the code stores a nested saved state (None: the bundle itself)
SAVABLE_KEYS = (None, '_state', '_future', '_paused', '_event_helper', 'stepper_state', 'command')


def canon_node(x, key=None):
    """['d', {k: node}] | ['v', value] | ['e', exn]"""
    import yaml
    if key == 'exception' and isinstance(x, BaseException):
        return ['e', canon_exc(x)]
    if key == 'ex_value':
        return ['e', canon_exc(yaml.load(x, Loader=yaml.Loader))]
    if key == 'traceback':
        return ['v', TB]
    if key == '_listeners':
        return ['v', canon_listeners(x)]
    if key == '!!meta':
        return ['d', {k: (['d', {kk: ['v', enc(vv)] for kk, vv in v.items()}] if k in ('types', 'user') else ['v', enc(v)]) for k, v in x.items()}]
    if key in SAVABLE_KEYS and isinstance(x, dict) and '!!meta' in x:
        return ['d', {k: canon_node(v, k) for k, v in x.items()}]
    return ['v', enc(x)]


def strip_tb(n):
    n = copy.deepcopy(n)
    st = n[1].get('_state')
    if st and st[0] == 'd':
        st[1].pop('traceback', None)
    return n


def node_diff(a, b, path=''):
    """first differing path of two canonical nodes, or None"""
    if a[0] != b[0]:
        return path or '.'
    if a[0] == 'd':
        for k in sorted(set(a[1]) | set(b[1])):
            if k not in a[1] or k not in b[1]:
                return '%s/%s' % (path, k)
            d = node_diff(a[1][k], b[1][k], '%s/%s' % (path, k))
            if d:
                return d
        return None
    return None if a[1] == b[1] else (path or '.')


# ---------------------------------------------------------------- abstraction of a real process
def state_abs(st):
    lab = st.LABEL.value
    if lab in ('created', 'running'):
        return [lab, st.run_fn.__name__, enc(list(st.args)), enc(dict(st.kwargs))]
    if lab == 'waiting':
        return [lab, None if st.done_callback is None else st.done_callback.__name__, enc(st.msg), None if held_awaitables(st) else enc(st.data)]
    if lab == 'finished':
        return [lab, enc(st.result), bool(st.successful)]
    if lab == 'excepted':
        return [lab, canon_exc(st.exception), st.traceback is not None]
    if lab == 'killed':
        return [lab, enc(st.msg)]
    raise ValueError(lab)


def held_awaitables(st):
    """futures held by a work chain's Waiting state: in `_awaiting` (still pending) and in `data` (the dict the step handed over)"""
    import asyncio
    held = set(id(k) for k in (getattr(st, '_awaiting', None) or {}))
    data = getattr(st, 'data', None)
    if isinstance(data, dict):
        held |= set(id(k) for k in data if isinstance(k, asyncio.Future))
    return len(held)


def abstract(proc, save_ctx):
    import plumpy
    st = proc._state
    a = {'cls': '%s:%s' % (type(proc).__module__, type(proc).__name__),
         'pid': enc(proc._pid), 'ctime': enc(proc._creation_time),
         'state': state_abs(st), 'in_state': bool(st.in_state),
         'raw': None if proc._raw_inputs is None else [enc(proc._raw_inputs)],
         'parsed': None if proc._parsed_inputs is None else [enc(proc._parsed_inputs)],
         'outputs': enc(proc._outputs), 'status': enc(proc._status), 'pre_paused': enc(proc._pre_paused_status),
         'paused': None if proc._paused is None else fut_abs(proc._paused), 'future': fut_abs(proc._future),
         'ltype': enc(proc._event_helper._listener_type), 'listeners': canon_listeners(proc._event_helper._listeners)}
    if isinstance(proc, plumpy.WorkChain):
        stepper = proc._stepper
        a['kd'] = {'ctx': enc(dict(proc._context.__dict__)),
                   'stepper': None if stepper is None else [canon_node(stepper.save(save_ctx))],
                   'awaiting': held_awaitables(st)}
    else:
        a['kd'] = None
    return a


def accessors(proc):
    """what the public API of a process shows (the model's `observe`)"""
    import plumpy
    o = {'pid': enc(proc.pid), 'ctime': enc(proc.creation_time), 'label': proc.state.value,
         'payload': state_abs(proc._state)[:],        # the state payload has no public accessor
         'raw': None if proc.raw_inputs is None else [enc(proc.raw_inputs)],
         'parsed': None if proc.inputs is None else [enc(proc.inputs)],
         'outputs': enc(proc.outputs), 'ctx': [enc(dict(proc.ctx.__dict__))] if isinstance(proc, plumpy.WorkChain) else None,
         'status': enc(proc.status), 'paused': proc.paused, 'future': fut_abs(proc.future())}
    if o['payload'][0] == 'excepted':
        o['payload'][2] = False
    try:
        o['result'] = ['ok', enc(proc.result())]
    except plumpy.KilledError as e:
        o['result'] = ['killed', enc(e.args[0])]
    except plumpy.InvalidStateError:
        o['result'] = ['invalid']
    except Exception as e:
        o['result'] = ['exn', canon_exc(e)]
    try:
        o['successful'] = [bool(proc.successful())]
    except plumpy.InvalidStateError:
        o['successful'] = None
    e = proc.exception()
    o['exception'] = None if e is None else [canon_exc(e)]
    try:
        o['killed_msg'] = [enc(proc.killed_msg())]
    except plumpy.InvalidStateError:
        o['killed_msg'] = None
    o['is_successful'] = proc.is_successful
    o['killed'] = proc.killed()
    o['is_excepted'] = proc.is_excepted
    o['has_terminated'] = proc.has_terminated()
    return o


# ---------------------------------------------------------------- Gallina printers
def c_loader(l):
    return {'D': 'LDefault', 'C': 'LCustom'}[l]


def c_kvs(d):
    return c_list([c_pair(c_str(k), c_val(x)) for k, x in d.items()])


def c_fstate(f):
    if f[0] == 'pending':
        return 'FPending'
    if f[0] == 'cancelled':
        return 'FCancelled'
    if f[0] == 'result':
        return '(FResult %s)' % c_val(f[1])
    return '(FExn %s)' % c_exn(f[1])


def c_sstate(s):
    k = s[0]
    if k == 'created':
        return '(StCreated %s %s %s)' % (c_str(s[1]), c_list([c_val(x) for x in s[2]]), c_kvs(s[3]))
    if k == 'running':
        return '(StRunning %s %s %s)' % (c_str(s[1]), c_list([c_val(x) for x in s[2]]), c_kvs(s[3]))
    if k == 'waiting':
        return '(StWaiting %s %s %s)' % (c_opt(s[1], c_str), c_val(s[2]), c_val(s[3]))
    if k == 'finished':
        return '(StFinished %s %s)' % (c_val(s[1]), c_bool(s[2]))
    if k == 'excepted':
        return '(StExcepted %s %s)' % (c_exn(s[1]), c_bool(s[2]))
    if k == 'killed':
        return '(StKilled %s)' % c_val(s[1])
    raise ValueError(s)


def c_node(n):
    if n[0] == 'v':
        return '(NVal %s)' % c_val(n[1])
    if n[0] == 'e':
        return '(NExn %s)' % c_exn(n[1])
    k = 'KNil'
    for key in sorted(n[1], reverse=True):
        k = '(KCons %s %s %s)' % (c_str(key), c_node(n[1][key]), k)
    return '(NDict %s)' % k


def c_optv(x):
    return 'None' if x is None else '(Some %s)' % c_val(x[0])


def c_proc(a):
    if a['kd'] is None:
        kd = 'KdProcess'
    else:
        kd = '(KdWorkChain %s %s %s)' % (c_kvs(a['kd']['ctx']), 'None' if a['kd']['stepper'] is None else '(Some %s)' % c_node(a['kd']['stepper'][0]),
                                         c_nat(a['kd']['awaiting']))
    return '(mk_proc %s %s %s %s %s %s %s %s %s %s %s %s %s %s %s)' % (
        c_str(a['cls']), kd, c_val(a['pid']), c_val(a['ctime']), c_sstate(a['state']), c_bool(a['in_state']),
        c_optv(a['raw']), c_optv(a['parsed']), c_kvs(a['outputs']), c_val(a['status']), c_val(a['pre_paused']),
        c_opt(a['paused'], c_fstate), c_fstate(a['future']), c_val(a['ltype']), c_val(a['listeners']))


def c_racc(r):
    if r[0] == 'ok':
        return '(RaOk %s)' % c_val(r[1])
    if r[0] == 'killed':
        return '(RaKilled %s)' % c_val(r[1])
    if r[0] == 'exn':
        return '(RaExn %s)' % c_exn(r[1])
    return 'RaInvalid'


def c_obs(o):
    return '(mk_obs %s %s %s %s %s %s %s %s %s %s %s %s %s %s %s)' % (
        c_val(o['pid']), c_val(o['ctime']), c_str(o['label']), c_sstate(o['payload']), c_optv(o['raw']), c_optv(o['parsed']),
        c_kvs(o['outputs']), 'None' if o['ctx'] is None else '(Some %s)' % c_kvs(o['ctx'][0]), c_val(o['status']), c_bool(o['paused']),
        c_fstate(o['future']), c_racc(o['result']), 'None' if o['successful'] is None else '(Some %s)' % c_bool(o['successful'][0]),
        'None' if o['exception'] is None else '(Some %s)' % c_exn(o['exception'][0]),
        'None' if o['killed_msg'] is None else '(Some %s)' % c_val(o['killed_msg'][0]))


EMPTY_NODE = '(NVal VNone)'
EMPTY_OBS = ('(mk_obs VNone VNone "" (StKilled VNone) None None [] None VNone false FPending RaInvalid None None None)')


def class_env():
    """qualified name -> (kind, method names) of the classes the loaders can import"""
    import plumpy
    import c07_procs
    env = []
    for name, cls in sorted(c07_procs.CLASSES.items()):
        kind = 'KWorkChain' if issubclass(cls, plumpy.WorkChain) else 'KProcess'
        methods = ['run', '_do_step'] if kind == 'KWorkChain' else ['run'] + ['s%d' % i for i in range(1, 9)]
        methods = [m for m in methods if callable(getattr(cls, m, None))]
        env.append(c_pair(c_str('%s:%s' % (cls.__module__, name)), c_pair(kind, c_list([c_str(m) for m in methods]))))
    return c_list(env)


_SEEN = {}


def to_coq(case, obs):
    g, s, l = case['loader']
    snaps = []
    for sn in obs['snaps']:
        if sn.get('skipped'):
            continue
        if sn['unsavable']:
            t = '(mk_snap %s true %s %s None)' % (c_proc(sn['proc']), EMPTY_NODE, EMPTY_OBS)
        elif sn.get('error'):
            # the implementation failed somewhere after the save: the model (which succeeds) must disagree visibly
            t = '(mk_snap %s false %s %s (Some %s))' % (c_proc(sn['proc']), c_node(sn['b1']) if sn.get('b1') else EMPTY_NODE, EMPTY_OBS, EMPTY_NODE)
        else:
            same = node_diff(strip_tb(sn['b1']), sn['b2']) is None
            t = '(mk_snap %s false %s %s %s)' % (c_proc(sn['proc']), c_node(sn['b1']), c_obs(sn['acc2']), 'None' if same else '(Some %s)' % c_node(sn['b2']))
        key = (case['medium'], tuple(case['loader']), t)
        owner = _SEEN.setdefault(key, id(obs))
        if owner == id(obs):
            snaps.append(t)
    return '(mk_c07 %s %s %s %s %s)' % (c_loader(g), c_opt(s, c_loader), c_opt(l, c_loader), class_env(), c_list(snaps))


# ---------------------------------------------------------------- running the implementation
def _loader(tag):
    import procs
    import plumpy
    return None if tag is None else (procs.PrefixLoader() if tag == 'C' else plumpy.DefaultObjectLoader())


def medium_fn(name):
    import yaml
    if name == 'deepcopy':
        return copy.deepcopy
    if name == 'pickle':
        return lambda b: pickle.loads(pickle.dumps(b))
    if name == 'yaml':
        return lambda b: yaml.load(yaml.dump(b), Loader=yaml.UnsafeLoader)
    raise ValueError(name)


class _Uuids:
    """deterministic uuid4 for processes created without a pid"""

    def __init__(self):
        self.n = 0

    def __call__(self):
        self.n += 1
        return uuid.UUID(int=(0xC07 << 64) + self.n)


def take_snapshot(proc, tag, case, loop):
    import plumpy
    g, s, l = case['loader']
    med = medium_fn(case['medium'])
    sctx = plumpy.LoadSaveContext(loader=_loader(s)) if s is not None else None

    def lctx():
        return plumpy.LoadSaveContext(loop=loop, loader=_loader(l))
    snap = {'tag': tag, 'unsavable': False}
    try:
        snap['proc'] = abstract(proc, sctx)
    except TypeError as e:       # a value outside the bundle domain (only a wait on live awaitables has one)
        snap.update(skipped=True, why=str(e)[:200])
        return snap
    try:
        b = plumpy.Bundle(proc, sctx)
    except Exception as e:
        snap['unsavable'] = type(e).__name__
        return snap
    stage = 'medium'
    try:
        b0 = canon_node(dict(b))
        b1r = med(b)
        if type(b1r) is not plumpy.Bundle:
            snap['medium_type'] = type(b1r).__name__
        snap['b1'] = canon_node(dict(b1r))
        d = node_diff(b0, snap['b1'])
        if d:
            snap['medium_changed'] = d
        snap['acc1'] = accessors(proc)
        stage = 'load'
        p2 = b1r.unbundle(lctx())
        stage = 'accessors of the loaded process'
        snap['acc2'] = accessors(p2)
        stage = 'second save'
        b2r = plumpy.Bundle(p2, sctx)
        snap['b2'] = canon_node(dict(b2r))
        stage = 'second generation'
        p3 = med(b2r).unbundle(lctx())
        b3 = canon_node(dict(plumpy.Bundle(p3, sctx)))
        acc3 = accessors(p3)
        d = node_diff(snap['b2'], b3)
        if d:
            snap['gen2_bundle_diff'] = d
        if acc3 != snap['acc1']:
            snap['gen2_acc_diff'] = [k for k in acc3 if acc3[k] != snap['acc1'].get(k)]
    except Exception as e:
        snap['error'] = [stage, type(e).__name__, str(e)[:300]]
    return snap


def run_impl(case):
    warnings.simplefilter('ignore')
    import plumpy
    from plumpy import process_states
    import sched
    import scripted
    import c07_procs
    g = case['loader'][0]
    sc = sched.Sched()
    snaps = []
    scripted.CURRENT.update(cfg=case, trace=[], actions=[])
    c07_procs.HOOK.update(snap=None, futures={}, occ={})
    orig_uuid4, orig_time = uuid.uuid4, time.time
    uuid.uuid4 = _Uuids()
    time.time = lambda: 1700000000.123456 + (sum(map(ord, case.get('name', ''))) % 97) / 7.0      # deterministic creation time
    plumpy.set_object_loader(_loader('C') if g == 'C' else None)
    out = {'snaps': snaps, 'tblib': bool(process_states._HAS_TBLIB)}
    try:
        cls = c07_procs.CLASSES[case['cls']]
        try:
            proc = cls(inputs=None if case.get('inputs') is None else dec(case['inputs']), pid=case.get('pid'), loop=sc.loop)
        except Exception as e:
            out['constructor_raised'] = type(e).__name__
            return out
        for params in case.get('listeners', []):
            proc.add_process_listener(c07_procs.C07Listener(**dec(params)))
        last = [None]

        def snap(p, tag):
            s = take_snapshot(p, tag, case, sc.loop)
            key = json.dumps([s.get('proc'), s.get('unsavable')], sort_keys=True)
            if key == last[0]:
                return            # nothing persisted changed since the previous snapshot
            last[0] = key
            snaps.append(s)
        snap(proc, 'start')
        c07_procs.HOOK['snap'] = snap
        sc.loop.create_task(proc.step_until_terminated())
        for ev in case['events']:
            k = ev[0]
            if k == 'tick':
                sc.tick()
            elif k == 'drain':
                for _ in range(ev[1]):
                    if not sc.tick():
                        break
                    snap(proc, 'tick')
            elif k == 'ctl':
                try:
                    scripted.do_ctl(proc, ev[1])
                except Exception:
                    pass
            elif k == 'cancel':
                proc.future().cancel()
            elif k == 'ext':
                f = proc._sc_future(ev[1]) if hasattr(proc, '_sc_future') else c07_procs.ext_future(sc.loop, ev[1])
                if not f.done():
                    f.set_result(dec(ev[2]))
            else:
                raise ValueError(ev)
            snap(proc, k)
        out['final_state'] = proc.state.value
        return out
    finally:
        c07_procs.HOOK['snap'] = None
        uuid.uuid4, time.time = orig_uuid4, orig_time
        plumpy.set_object_loader(None)
        for f in c07_procs.HOOK['futures'].values():
            if f.done() and not f.cancelled():
                f.exception()
        sc.close()


# ---------------------------------------------------------------- the property itself, on the implementation
def oracle(case, obs):
    if obs.get('tblib'):
        return {'signature': 'environment_has_tblib', 'kind': 'environment'}
    if obs.get('constructor_raised'):
        return None
    for i, sn in enumerate(obs['snaps']):
        if sn.get('skipped'):
            continue
        where = {'snapshot': i, 'tag': sn['tag'], 'state': sn['proc']['state'][0], 'medium': case['medium'], 'loader': case['loader']}
        live = (sn['proc']['kd'] or {}).get('awaiting', 0)
        if sn['unsavable']:
            if live:
                continue          # a wait on live awaitables: the code cannot copy futures; not "a state in which it can be saved"
            return dict(where, signature='save_raised:%s' % sn['unsavable'], kind='save')
        if sn.get('error'):
            st, ty, msg = sn['error']
            return dict(where, signature='%s_raised:%s' % (st.split()[0], ty), kind=st, message=msg)
        if sn.get('medium_changed'):
            return dict(where, signature='medium_changed_bundle:%s' % case['medium'], kind='medium', path=sn['medium_changed'])
        if sn.get('medium_type'):
            return dict(where, signature='medium_changed_bundle_type:%s' % case['medium'], kind='medium', got=sn['medium_type'])
        d = node_diff(strip_tb(sn['b1']), sn['b2'])
        if d:
            return dict(where, signature='bundle_not_idempotent:%s' % d.split('/')[1], kind='idempotence', path=d)
        if sn['b2'][1].get('_state', ['d', {}])[1].get('traceback') is not None:
            return dict(where, signature='traceback_restored_without_tblib', kind='idempotence')
        a1, a2 = sn['acc1'], sn['acc2']
        for k in a1:
            if k == 'payload' and a1[k][0] == 'excepted':
                continue
            if a1[k] != a2.get(k):
                return dict(where, signature='accessor_differs:%s' % k, kind='observe', before=a1[k], after=a2.get(k))
        if a1['payload'][:2] != a2['payload'][:2]:
            return dict(where, signature='accessor_differs:payload', kind='observe', before=a1['payload'], after=a2['payload'])
        if sn.get('gen2_bundle_diff'):
            return dict(where, signature='second_generation_bundle_differs', kind='idempotence', path=sn['gen2_bundle_diff'])
        if sn.get('gen2_acc_diff'):
            return dict(where, signature='second_generation_accessor_differs:%s' % sn['gen2_acc_diff'][0], kind='observe')
    return None


def nontrivial(case, obs):
    for sn in obs['snaps']:
        if sn.get('skipped') or sn['unsavable'] or sn.get('error'):
            continue
        if sn['proc']['state'][0] != 'created':
            return True
    return False


def distribution(cases, obs):
    d = {'snapshots': 0, 'states': {}, 'media': {}, 'loaders': {}, 'classes': {}, 'paused_snapshots': 0, 'paused_with_pre_paused_status': 0, 'paused_done_future': 0, 'unsavable_live_awaitables': 0,
         'with_outputs': 0, 'with_kwargs': 0, 'with_wait_data': 0, 'with_traceback': 0, 'unsuccessful': 0, 'workchain_snapshots': 0,
         'with_stepper': 0, 'with_listeners': 0, 'uuid_pid': 0, 'skipped': 0}
    for c, o in zip(cases, obs):
        d['media'][c['medium']] = d['media'].get(c['medium'], 0) + 1
        lk = '/'.join(str(x) for x in c['loader'])
        d['loaders'][lk] = d['loaders'].get(lk, 0) + 1
        d['classes'][c['cls']] = d['classes'].get(c['cls'], 0) + 1
        for sn in o['snaps']:
            if sn.get('skipped'):
                d['skipped'] += 1
                continue
            d['snapshots'] += 1
            p = sn['proc']
            s = p['state']
            d['states'][s[0]] = d['states'].get(s[0], 0) + 1
            d['unsavable_live_awaitables'] += bool(sn['unsavable'])
            d['paused_snapshots'] += p['paused'] is not None
            d['paused_with_pre_paused_status'] += p['paused'] is not None and p['pre_paused'] is not None
            d['paused_done_future'] += bool(p['paused'] and p['paused'][0] != 'pending')
            d['with_outputs'] += bool(p['outputs'])
            d['with_kwargs'] += s[0] in ('created', 'running') and bool(s[3])
            d['with_wait_data'] += s[0] == 'waiting' and s[3] is not None
            d['with_traceback'] += s[0] == 'excepted' and s[2]
            d['unsuccessful'] += s[0] == 'finished' and not s[2]
            d['workchain_snapshots'] += p['kd'] is not None
            d['with_stepper'] += bool(p['kd'] and p['kd']['stepper'])
            d['with_listeners'] += bool(p['listeners'])
            d['uuid_pid'] += isinstance(p['pid'], str) and p['pid'].startswith('uuid:')
    return d


# ---------------------------------------------------------------- generators
def script(actions=(), ret=('value', 5)):
    return {'actions': [list(a) for a in actions], 'ret': list(ret)}


def wscript(actions=(), ret=('none',)):
    return {'actions': [list(a) for a in actions], 'ret': list(ret)}


T = lambda *xs: {'__tuple__': list(xs)}      # noqa: E731
TRICKY = ['null', '1', 'true', '', ' x', 'a: b', '- x', '!!meta', "it's", '"q"', '~', 'yes', '#c', '{}', '[]', 'x\\n']
DRAIN = ['drain', 40]


def process_programs():
    """name -> (prog, inputs, listeners)"""
    P = {}
    P['value'] = ({'run': script(ret=('value', {'r': T(1, 'a'), 'n': None}))}, None, [])
    P['chain'] = ({'run': script([('out', 'x', 1)], ('continue', 's1', [1, 'u', T(2, [3])], {'k': 2, 'j': [None]})),
                   's1': script([('out', 'n.y', [1, 2]), ('out', 'n.m.z', {'q': T()})], ('continue', 's2', [], {})),
                   's2': script(ret=('value', 7))}, {'a': 1, 'zz': {'q': T(1, 2)}}, [{'tag': 'l1', 'n': 1}])
    P['async'] = ({'run': script([('yield',), ('out', 'o', True), ('yield',)], ('continue', 's1', [True, 1, None], {})),
                   's1': script([('yield',)], ('value', 3))}, {}, [])
    P['wait'] = ({'run': script(ret=('wait', 's1', 'waiting for it', {'d': T(1, 2), 'e': [{'f': None}]})),
                  's1': script([('out', 'got', 1)], ('value', 1))}, {'ns': {'b': 'y'}}, [{'tag': 'l1'}, {'tag': 'l2', 'p': [1]}])
    P['wait2'] = ({'run': script(ret=('wait', 's1', None, None)), 's1': script(ret=('wait', 's2', 'again', 0)),
                   's2': script(ret=('continue', 's3', [], {'only': 'kw'})), 's3': script(ret=('value', 'end'))}, None, [])
    P['wait_nocb'] = ({'run': script(ret=('wait', None, 'no callback', [1]))}, {'a': None}, [])
    P['raise0'] = ({'run': script(ret=('raise', 'boom'))}, {'a': 0}, [])
    P['raise2'] = ({'run': script([('out', 'before', 1), ('yield',)], ('continue', 's1', [0], {})), 's1': script(ret=('raise', 'later'))}, None, [])
    P['unsucc'] = ({'run': script([('out', 'p', 'v')], ('unsuccessful', 3))}, {'a': 2}, [])
    P['stop'] = ({'run': script(ret=('stop', [1, T(2)], False))}, None, [])
    P['stop_ok'] = ({'run': script([('yield',)], ('stop', None, True))}, None, [])
    P['killcmd'] = ({'run': script([('yield',)], ('kill', ['bye']))}, None, [])
    P['killcmd_none'] = ({'run': script(ret=('kill', None))}, {'x': 1}, [])
    P['killcmd_notext'] = ({'run': script(ret=('kill', [None]))}, None, [])
    P['selfpause'] = ({'run': script([('ctl', ['pause', 'self'])], ('continue', 's1', [5], {})), 's1': script([('yield',)], ('value', 2))}, None, [])
    P['tricky'] = ({'run': script([('out', 't', TRICKY)], ('continue', 's1', TRICKY[:6], {})),
                    's1': script(ret=('wait', 's2', 'null', {k or 'empty': k for k in TRICKY})), 's2': script(ret=('value', T(*TRICKY)))},
                   {'dyn': {k or 'empty': [k] for k in TRICKY}, 'a': '1'}, [{'tag': '~'}])
    P['ext'] = ({'run': script([('await', 0)], ('continue', 's1', [], {})), 's1': script([('out', 'after', 1)], ('value', 2))}, None, [])
    return P


def chain_programs():
    """name -> (class, wsteps, preds, inputs, listeners)"""
    W = {}
    W['lin'] = ('C07Linear', {'w1': wscript([('ctx', 'x', 1), ('out', 'o.p', [1])]), 'w2': wscript([('ctxapp', 'l', T(1, 2)), ('status', 'busy')]),
                              'w3': wscript([('ctx', 'd', {'k': [1, {'m': None}]})])}, {}, {'a': 2}, [{'tag': 'w'}])
    W['lin_code'] = ('C07Linear', {'w1': wscript([('ctx', 'x', 'null')]), 'w2': wscript(ret=('code', 4))}, {}, None, [])
    W['lin_raise'] = ('C07Linear', {'w1': wscript([('out', 'r', 1)]), 'w2': wscript([('ctx', 'y', 2)], ('raise', 'wboom'))}, {}, {}, [])
    W['lin_wait'] = ('C07Linear', {'w1': wscript([('ctx', 'x', 1), ('status', 'st1')], ('wait', 'hold')), 'w2': wscript([('ctl', ['pause', 'pm'])], ('wait', None)),
                                   'w3': wscript()}, {}, {'zz': T(1)}, [])
    W['lin_await'] = ('C07Linear', {'w1': wscript([('ctx', 'x', 1)], ('await', 'k', 0)), 'w2': wscript([('ctxapp', 'l', 1)])}, {}, None, [])
    W['single'] = ('C07Single', {'w1': wscript([('ctx', 'only', True), ('out', 'res', 1)])}, {}, None, [])
    W['br1'] = ('C07Branch', {'w2': wscript([('ctx', 'b', 'if')]), 'w3': wscript([('ctl', ['pause', None])]), 'w6': wscript([('out', 'end', 1)])},
                {'p1': [True]}, {'a': 3}, [])
    W['br2'] = ('C07Branch', {'w4': wscript([('ctx', 'b', 'elif')], ('wait', 'in elif'))}, {'p1': [False], 'p2': [True]}, None, [{'tag': 'b'}])
    W['br3'] = ('C07Branch', {'w5': wscript([('ctx', 'b', 'else'), ('ctl', ['kill', 'from step'])])}, {'p1': [False], 'p2': [False]}, None, [])
    W['loop'] = ('C07Loop', {'w1': wscript([('ctx', 'n', 0), ('status', 'looping')]), 'w2': wscript([('ctxapp', 'l', T(1, 2)), ('ctl', ['pause', 'pm'])], ('wait', 'hold')),
                             'w3': wscript([('ctxapp', 'm', 'x')]), 'w4': wscript(ret=('code', 0))},
                 {'p1': [True, True, False], 'p2': [True, False]}, {'a': 2}, [{'tag': 'l1', 'n': 1}])
    W['loop0'] = ('C07Loop', {'w4': wscript([('out', 'o', None)])}, {'p1': [False]}, None, [])
    W['ret'] = ('C07Return', {'w1': wscript([('ctx', 'c', 1)]), 'w2': wscript([('status', 'ret')])}, {'p1': [True]}, None, [])
    W['ret_loop'] = ('C07Return', {'w1': wscript([('status', 'null')]), 'w3': wscript([('ctxapp', 'l', 0)], ('wait', None))}, {'p1': [False], 'p2': [True, True, False]}, {'a': 9}, [])
    return W


CTL_SCHEDULES = [
    [],
    [(0, ['ctl', ['pause', 'halt']]), (2, ['ctl', ['play']])],
    [(1, ['ctl', ['pause', None]]), (2, ['ctl', ['kill', 'k']])],
    [(1, ['ctl', ['kill', None]])],
    [(0, ['ctl', ['pause', 'p0']]), (1, ['ctl', ['resume', 42]]), (3, ['ctl', ['play']])],
    [(1, ['cancel'])],          # the owner cancels the process future: the snapshot taken before the kill callback runs holds a cancelled future
]


def schedule(events_at, resume_value=11, n_resume=4, wc=False):
    """ticks one by one with control events placed at the given boundaries, then: resume every wait, complete awaitables, drain"""
    out = []
    by = {}
    for i, e in events_at:
        by.setdefault(i, []).append(e)
    for i in range(max(by) + 1 if by else 0):
        out += by.get(i, [])
        out.append(['tick'])
    out.append(list(DRAIN))
    for _ in range(n_resume):
        out.append(['ext', 0, 5])
        out.append(['ctl', ['resume'] if wc else ['resume', resume_value]])
        out.append(list(DRAIN))
    return out


STATUS = {'chain': {'run': 'working', 's2': 'nearly'}, 'wait': {'run': 'about to wait'}, 'wait2': {'run': 'w', 's1': 'null'}, 'async': {'run': 'a'},
          'raise2': {'run': 'doomed'}, 'ext': {'run': 'awaiting'}, 'tricky': {'run': '~'}, 'selfpause': {'run': 'mine'}}


def base_runs():
    runs = []
    pids = itertools.cycle([7, 'P-1', None, 0, 'null'])
    for name, (prog, inputs, ls) in process_programs().items():
        for si, sch in enumerate(CTL_SCHEDULES):
            runs.append({'name': '%s/%d' % (name, si), 'cls': 'C07Process', 'prog': prog, 'inputs': inputs, 'listeners': ls, 'pid': next(pids),
                         'status': STATUS.get(name), 'events': schedule(sch)})
    for name, (cls, wsteps, preds, inputs, ls) in chain_programs().items():
        for si, sch in enumerate(CTL_SCHEDULES):
            runs.append({'name': '%s/%d' % (name, si), 'cls': cls, 'wsteps': wsteps, 'preds': preds, 'inputs': inputs, 'listeners': ls, 'pid': next(pids),
                         'events': schedule(sch, wc=True)})
    return runs


def rand_val(rng, depth=2):
    r = rng.random()
    if depth == 0 or r < 0.45:
        return rng.choice([None, True, False, 0, 1, -3, 2 ** 40, 'a', '', 'null', 'x y', '1', 'k: v'])
    if r < 0.6:
        return T(*[rand_val(rng, depth - 1) for _ in range(rng.randint(0, 3))])
    if r < 0.8:
        return [rand_val(rng, depth - 1) for _ in range(rng.randint(0, 3))]
    return {rng.choice(['a', 'b', 'c', 'null', '1']): rand_val(rng, depth - 1) for _ in range(rng.randint(0, 3))}


def rand_run(rng, i):
    if rng.random() < 0.6:
        steps = ['run'] + ['s%d' % k for k in range(1, rng.randint(1, 4))]
        prog = {}
        for n, name in enumerate(steps):
            acts = []
            for _ in range(rng.randint(0, 2)):
                r = rng.random()
                if r < 0.5:
                    acts.append(['out', rng.choice(['x', 'y', 'n.a', 'n.b.c']), rand_val(rng)])
                elif r < 0.8:
                    acts.append(['yield'])
                else:
                    acts.append(['ctl', rng.choice([['pause', 'sp'], ['pause', None]])])
            last = n == len(steps) - 1
            if last:
                ret = rng.choice([['value', rand_val(rng)], ['unsuccessful', rand_val(rng, 1)], ['raise', 'e%d' % i], ['kill', [rng.choice(['m', None])]],
                                  ['kill', None], ['stop', rand_val(rng, 1), rng.random() < 0.5]])
            elif rng.random() < 0.5:
                ret = ['continue', steps[n + 1], [rand_val(rng) for _ in range(rng.randint(0, 2))], {k: rand_val(rng, 1) for k in rng.sample(['k', 'j'], rng.randint(0, 2))}]
            else:
                ret = ['wait', steps[n + 1], rng.choice([None, 'm', 'null']), rand_val(rng)]
            prog[name] = {'actions': acts, 'ret': ret}
        run = {'cls': 'C07Process', 'prog': prog, 'status': {n: rng.choice(['s', 'null', 'busy']) for n in steps if rng.random() < 0.5}}
        wc = False
    else:
        cls = rng.choice(['C07Linear', 'C07Single', 'C07Branch', 'C07Loop', 'C07Return'])
        wsteps = {}
        for k in range(1, 7):
            if rng.random() < 0.6:
                acts = []
                for _ in range(rng.randint(0, 2)):
                    r = rng.random()
                    if r < 0.35:
                        acts.append(['ctx', rng.choice(['x', 'y', 'null']), rand_val(rng)])
                    elif r < 0.55:
                        acts.append(['ctxapp', 'l', rand_val(rng, 1)])
                    elif r < 0.75:
                        acts.append(['out', rng.choice(['x', 'n.a']), rand_val(rng)])
                    elif r < 0.9:
                        acts.append(['ctl', rng.choice([['pause', 'sp'], ['pause', None], ['kill', 'sk']])])
                    else:
                        acts.append(['status', rng.choice(['st', 'null'])])
                ret = rng.choice([['none']] * 5 + [['wait', rng.choice([None, 'm'])], ['code', rng.randint(0, 3)], ['raise', 'w%d' % i], ['await', 'k', 0]])
                wsteps['w%d' % k] = {'actions': acts, 'ret': ret}
        preds = {'p%d' % k: [rng.random() < 0.5 for _ in range(3)] for k in range(1, 4)}
        run = {'cls': cls, 'wsteps': wsteps, 'preds': preds}
        wc = True
    at = []
    for _ in range(rng.randint(0, 3)):
        at.append((rng.randint(0, 4), ['ctl', rng.choice([['pause', 'rp'], ['pause', None], ['play'], ['kill', 'rk'], ['kill', None], ['resume'] if wc else ['resume', 3]])]))
    run.update(name='rand%d' % i, inputs=rng.choice([None, {}, {'a': rand_val(rng)}, {'zz': rand_val(rng), 'ns': {'b': rand_val(rng, 1)}}]),
               listeners=[{'tag': 'r%d' % k, 'v': rand_val(rng, 1)} for k in range(rng.randint(0, 2))],
               pid=rng.choice([None, 1, 'p', 'null']), events=schedule(sorted(at, key=lambda x: x[0]), wc=wc))
    return run


def generate(tier, rng, around=None):
    cases = []
    runs = base_runs()
    if tier == 'quick':
        # every run under every medium; loader configurations rotate over (run, medium)
        # (the first, event-free schedule under every medium; the control schedules under one medium each, rotating)
        k = 0
        for r in runs:
            for m in (MEDIA if r['name'].endswith('/0') else (MEDIA[k % 3],)):
                cases.append(dict(r, medium=m, loader=list(LOADERS[k % len(LOADERS)])))
                k += 1
        for i in range(30):
            r = rand_run(rng, i)
            cases.append(dict(r, medium=MEDIA[i % 3], loader=list(LOADERS[(i // 3) % len(LOADERS)])))
    elif tier == 'thorough':
        # the event-free and the pause/play schedule: every medium x every loader configuration; the other schedules: every medium x 2 rotating loaders
        k = 0
        for r in runs:
            full = r['name'].endswith('/0') or r['name'].endswith('/1')
            for m in MEDIA:
                for l in (LOADERS if full else (LOADERS[k % len(LOADERS)], LOADERS[(k + 3) % len(LOADERS)])):
                    cases.append(dict(r, medium=m, loader=list(l)))
                k += 1
        for i in range(300):
            r = rand_run(rng, i)
            cases.append(dict(r, medium=MEDIA[i % 3], loader=list(LOADERS[(i // 3) % len(LOADERS)])))
    else:   # widen: all media and loader configurations of the diverging runs, then random volume
        for c in (around or [])[:6]:
            for m in MEDIA:
                for l in LOADERS[:3]:
                    cases.append(dict(c, medium=m, loader=list(l)))
        for k, r in enumerate(runs):
            cases.append(dict(r, medium=MEDIA[k % 3], loader=list(LOADERS[rng.randrange(len(LOADERS))])))
        for i in range(120):
            r = rand_run(rng, 10000 + i)
            cases.append(dict(r, medium=MEDIA[i % 3], loader=list(LOADERS[(i // 3) % len(LOADERS)])))
    return {'cases': cases, 'exhaustive': tier == 'thorough',
            'scope': ('%d hand-written programs (17 processes, 13 work chains over 5 outlines): the event-free and the pause/play schedule under all 3 media x 7 loader '
                      'configurations, 3 further control schedules under all 3 media; every state entry and every event boundary'
                      % (len(runs) // len(CTL_SCHEDULES)))}


def shrink_candidates(case):
    ev = case['events']
    for i in range(len(ev)):
        yield dict(case, events=ev[:i] + ev[i + 1:])
    if case.get('listeners'):
        yield dict(case, listeners=[])
    if case.get('inputs'):
        yield dict(case, inputs=None)
    for key in ('prog', 'wsteps'):
        for name, s in (case.get(key) or {}).items():
            for j in range(len(s['actions'])):
                yield dict(case, **{key: dict(case[key], **{name: dict(s, actions=s['actions'][:j] + s['actions'][j + 1:])})})
    if case['medium'] != 'deepcopy':
        yield dict(case, medium='deepcopy')
    if case['loader'] != ['D', None, None]:
        yield dict(case, loader=['D', None, None])
