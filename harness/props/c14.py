"""C14 — persisters are a snapshot store keyed by (pid, tag), equivalent to each other."""
import asyncio
import copy
import itertools
import json
import os
import shutil
import tempfile
import warnings

import coqio
from coqio import c_str, c_list, c_opt, c_pair, c_val

PROP = 'C14'
CORR_MODULE = 'Persister Corr_C14'
CASE_TYPE = 'C14_case'
MODEL_FN = 'c14_model'
SHARD = 150
RULE = ('history of save/load/list/delete operations over 2 processes x 3 tags (incl. None), interleaved with progress of the live processes and with '
        'mutation of loaded bundles/processes; both real persisters run on the same history; non-trivial = a load follows progress or mutation, '
        'or a delete/list follows >= 2 saves; distinct = distinct history')
ASSUMPTIONS = ['ids are separator-free strings or integers, one kind per history; tags separator-free strings or None',
               'a missing key is NotFound whether it surfaces as KeyError or FileNotFoundError (deliberate canonicalisation)',
               'pickle and the file system are faithful on the bundle domain']
TRUSTED_EXTRA = ['pickle, os.walk/fnmatch and the file system under the pickle directory are modelled as a finite map from file name to content']


def c_tag(t):
    return c_opt(t, c_str)


def c_key(k):
    return c_pair(c_str(k[0]), c_tag(k[1]))


def c_pout(o):
    if o[0] == 'none':
        return 'ONone'
    if o[0] == 'snap':
        return '(OSnap %s)' % c_val(o[1])
    if o[0] == 'notfound':
        return 'ONotFound'
    if o[0] == 'keys':
        return '(OKeys %s)' % c_list([c_key(k) for k in o[1]])
    raise ValueError(o)


def to_coq(case, obs):
    ops = []
    for op, snap in zip(case['hist'], obs['snaps']):
        k = op[0]
        if k == 'save':
            ops.append('(Save %s %s %s)' % (c_str(str(op[1])), c_tag(op[2]), c_val(snap)))
        elif k == 'load':
            ops.append('(Load %s %s)' % (c_str(str(op[1])), c_tag(op[2])))
        elif k == 'list':
            ops.append('ListAll')
        elif k == 'list_pid':
            ops.append('(ListPid %s)' % c_str(str(op[1])))
        elif k == 'delete':
            ops.append('(Delete %s %s)' % (c_str(str(op[1])), c_tag(op[2])))
        elif k == 'delete_pid':
            ops.append('(DeletePid %s)' % c_str(str(op[1])))
    return '(mk_c14 %s %s %s)' % (c_list(ops), c_list([c_pout(o) for o in obs['mem'] if o is not None]),
                                  c_list([c_pout(o) for o in obs['pickle'] if o is not None]))


def canon(bundle):
    st = bundle['_state']['!!meta']['class_name'].split(':')[-1].lower()
    raw = bundle.get('_context', {})
    ctx = copy.deepcopy(raw)
    if 'view' in ctx:
        # object sharing inside the snapshot is part of what it holds: record it instead of the (redundant) second copy
        ctx['view'] = 'the list d.k' if raw['view'] is raw.get('d', {}).get('k') else 'A SEPARATE COPY of the list d.k'
    return {'state': st, 'ctx': ctx}


_L = []


def loop():
    if not _L:
        _L.append(asyncio.new_event_loop())
    asyncio.set_event_loop(_L[0])
    return _L[0]


def run_impl(case):
    warnings.simplefilter('ignore')
    import plumpy
    import procs
    lp = loop()
    d = tempfile.mkdtemp(prefix='c14_', dir=os.path.join(coqio.BUILD))
    try:
        pers = {'mem': plumpy.InMemoryPersister(), 'pickle': plumpy.PicklePersister(d)}
        live = {}
        for pid in case['pids']:
            live[pid] = procs.CounterChain(pid=pid, loop=lp)
        out = {'mem': [], 'pickle': [], 'snaps': []}
        for op in case['hist']:
            k = op[0]
            snap = None
            if k == 'progress':
                p = live[op[1]]
                if not p.has_terminated():
                    lp.run_until_complete(p.step())
                out['mem'].append(None)
                out['pickle'].append(None)
                out['snaps'].append(None)
                continue
            if k == 'save':
                snap = canon(plumpy.Bundle(live[op[1]]))
            out['snaps'].append(snap)
            for name, ps in pers.items():
                try:
                    if k == 'save':
                        ps.save_checkpoint(live[op[1]], op[2])
                        r = ['none']
                    elif k == 'load':
                        r = ['snap', canon(ps.load_checkpoint(op[1], op[2]))]
                    elif k == 'mutate_loaded':
                        # what a user does with a loaded checkpoint: look inside, continue the process
                        b = ps.load_checkpoint(op[1], op[2])
                        proc = b.unbundle(plumpy.LoadSaveContext(loop=lp))
                        if not proc.has_terminated():
                            lp.run_until_complete(proc.step())
                            if not proc.has_terminated():
                                lp.run_until_complete(proc.step())
                        b.get('_context', {}).setdefault('l', []).append(99)
                        r = None
                    elif k == 'list':
                        r = ['keys', [[str(c.pid), c.tag] for c in ps.get_checkpoints()]]
                    elif k == 'list_pid':
                        r = ['keys', [[str(c.pid), c.tag] for c in ps.get_process_checkpoints(op[1])]]
                    elif k == 'delete':
                        ps.delete_checkpoint(op[1], op[2])
                        r = ['none']
                    elif k == 'delete_pid':
                        ps.delete_process_checkpoints(op[1])
                        r = ['none']
                except (KeyError, FileNotFoundError):
                    r = ['notfound'] if k != 'mutate_loaded' else None
                out[name].append(r)
        for p in live.values():
            p.close()
        return out
    finally:
        shutil.rmtree(d, ignore_errors=True)


def oracle(case, obs):
    store = {}
    for n, op in enumerate(case['hist']):
        k = op[0]
        if k in ('progress', 'mutate_loaded'):
            continue
        if k == 'save':
            store[(str(op[1]), op[2])] = obs['snaps'][n]
            want = ['none']
        elif k == 'load':
            key = (str(op[1]), op[2])
            want = ['snap', store[key]] if key in store else ['notfound']
        elif k == 'list':
            want = ['keys', sorted([list(x) for x in store], key=repr)]
        elif k == 'list_pid':
            want = ['keys', sorted([list(x) for x in store if x[0] == str(op[1])], key=repr)]
        elif k == 'delete':
            store.pop((str(op[1]), op[2]), None)
            want = ['none']
        elif k == 'delete_pid':
            for x in [x for x in store if x[0] == str(op[1])]:
                del store[x]
            want = ['none']
        for name in ('mem', 'pickle'):
            got = obs[name][n]
            if got and got[0] == 'keys':
                if len(set(map(repr, got[1]))) != len(got[1]):
                    return {'signature': 'listing_has_duplicates', 'kind': name, 'op': n}
                got = ['keys', sorted(got[1], key=repr)]
            if got != want:
                sig = 'snapshot_changed_after_save' if (k == 'load' and got[0] == 'snap' and want[0] == 'snap') else 'persister_output_differs_from_map'
                return {'signature': sig, 'kind': name, 'op': n, 'operation': op, 'expected': want, 'observed': got}
    return None


def nontrivial(case, obs):
    h = case['hist']
    kinds = [o[0] for o in h]
    if 'load' in kinds and ('progress' in kinds or 'mutate_loaded' in kinds):
        return True
    return kinds.count('save') >= 2 and any(k in kinds for k in ('delete', 'delete_pid', 'list', 'list_pid'))


def distribution(cases, obs):
    d = {}
    for c in cases:
        for o in c['hist']:
            d[o[0]] = d.get(o[0], 0) + 1
        d['int_pids'] = d.get('int_pids', 0) + (isinstance(c['pids'][0], int))
    d['histories'] = len(cases)
    d['max_len'] = max(len(c['hist']) for c in cases)
    return d


TAGS = [None, 't1', 't2', '']          # the empty string is a legal tag, distinct from no tag


def rand_hist(rng, pids, n):
    h = []
    for _ in range(n):
        r = rng.random()
        p = rng.choice(pids)
        t = rng.choice(TAGS)
        if r < 0.28:
            h.append(['save', p, t])
        elif r < 0.45:
            h.append(['load', p, t])
        elif r < 0.58:
            h.append(['progress', p])
        elif r < 0.66:
            h.append(['mutate_loaded', p, t])
        elif r < 0.74:
            h.append(['list'])
        elif r < 0.82:
            h.append(['list_pid', p])
        elif r < 0.92:
            h.append(['delete', p, t])
        else:
            h.append(['delete_pid', p])
    return h


def generate(tier, rng, around=None):
    cases = []
    if tier == 'widen':
        cases += list(around or [])
    # ids that are textual prefixes of one another: a file-name / glob based store must still keep them apart
    pids = ['A', 'AB']
    # systematic short histories: every op after a fixed prefix of saves
    prefix = [['save', 'A', None], ['progress', 'A'], ['save', 'A', 't1'], ['save', 'AB', 't1'], ['progress', 'A'], ['progress', 'AB']]
    singles = [['save', 'A', None], ['save', 'A', 't1'], ['save', 'AB', 't2'], ['save', 'A', ''], ['load', 'A', ''], ['delete', 'A', ''], ['load', 'A', None], ['load', 'A', 't1'], ['load', 'AB', None],
               ['load', 'AB', 't1'], ['mutate_loaded', 'A', None], ['mutate_loaded', 'A', 't1'], ['list'], ['list_pid', 'A'], ['list_pid', 'AB'],
               ['list_pid', 'ABC'], ['delete', 'A', None], ['delete', 'A', 't2'], ['delete', 'AB', 't1'], ['delete_pid', 'A'], ['delete_pid', 'ABC'],
               ['progress', 'A']]
    if tier != 'widen':
        for a, b in itertools.product(singles, singles):
            tail = [['load', 'A', None], ['load', 'A', 't1'], ['load', 'AB', 't1'], ['list']]
            cases.append({'pids': pids, 'hist': prefix + [a, b] + tail})
        if tier == 'thorough':
            for a, b, c in itertools.product(singles[6:], repeat=3):
                if rng.random() < 0.25:
                    cases.append({'pids': pids, 'hist': prefix + [a, b, c, ['load', 'A', None], ['load', 'AB', 't1'], ['list']]})
    n_rand = {'quick': 250, 'thorough': 2500, 'widen': 1500}[tier]
    for i in range(n_rand):
        ps = [pids, [1, 12], ['A', 'B'], [1, 2]][i % 4]
        cases.append({'pids': ps, 'hist': rand_hist(rng, ps, rng.randint(4, 40 if tier != 'quick' else 25))})
    return {'cases': cases, 'exhaustive': tier != 'widen',
            'scope': 'a fixed 6-operation prefix followed by every ordered pair of 19 operations (saves, loads, progress, mutation of a loaded checkpoint, listings, deletions) and 4 closing reads'}


def shrink_candidates(case):
    h = case['hist']
    for i in range(len(h)):
        yield dict(case, hist=h[:i] + h[i + 1:])
