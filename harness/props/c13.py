"""C13 — a step's return value alone decides what happens next, with exact arguments."""
import itertools
import json
import warnings

import coqio
import life
from life import CORR_MODULE, CASE_TYPE, MODEL_FN, CORR_FILE, to_coq, distribution, script as S

PROP = 'C13'
SHARD = 150
RULE = ('chain of <= 4 scripted steps, each returning one of Continue(f,*a,**k) / Wait(f,msg,data) / plain value / UnsuccessfulResult / '
        'Stop(v,ok) / Kill(msg), with positional and keyword arguments, wait data and resume values (incl. resume without a value); the real '
        'process runs under the controlled scheduler, is resumed by the schedule, and a Bundle taken at every state entry is restored into a '
        'fresh process on a fresh loop and run on; non-trivial = at least one Continue with arguments or one resumed Wait; distinct = distinct program')
ASSUMPTIONS = ['no control requests other than the resume of each wait', 'life-cycle hooks and listeners do not raise']
TRUSTED_EXTRA = ['restore half: checked on the implementation (bundle at every state entry -> unbundle -> run) by the oracle; the model side is the '
                 'round trip of the RUNNING / WAITING payload (Life/LifeSteps.v) ']

from c13_saver import BUNDLES, SAVING, Saver


def steps_of(trace):
    return [e for e in trace if e[0] in ('step', 'output')]


def run_impl(case):
    """Run with the ordinary life harness (compared with the model), then the restore experiment."""
    warnings.simplefilter('ignore')
    import plumpy
    import scripted
    import sched
    import portgen
    klass = scripted.ScriptedSyncProcess if scripted.is_sync_program(case['prog']) else scripted.ScriptedProcess
    obs = life.strip_obs(life.run_case(case, klass=klass))
    # the restore experiment: same program, bundles at every RUNNING / WAITING entry
    restored = []
    sc = sched.Sched()
    trace, actions = [], []
    scripted.CURRENT.update(cfg=case, trace=trace, actions=actions)
    try:
        proc = klass(loop=sc.loop)
        proc.add_process_listener(Saver())
        del BUNDLES[:]
        SAVING[0] = True
        sc.loop.create_task(proc.step_until_terminated())
        _drive_events(sc, proc, case)
        SAVING[0] = False
        ref = steps_of(trace)
        final_ref = _final(proc)
        bundles = list(BUNDLES)
    finally:
        SAVING[0] = False
        sc.close()
    for pos, b, outs_at_save in bundles:
        sc2 = sched.Sched()
        trace2, actions2 = [], []
        scripted.CURRENT.update(cfg=case, trace=trace2, actions=actions2)
        try:
            p2 = b.unbundle(plumpy.LoadSaveContext(loop=sc2.loop))
            outs_restored = portgen.encode(dict(p2.outputs))
            if p2.paused:
                p2.play()
            sc2.loop.create_task(p2.step_until_terminated())
            _drive(sc2, p2, case, skip_resumes=_resumes_before(case, trace, pos))
            restored.append({'pos': pos, 'suffix_ok': steps_of(trace2) == ref[_count_steps(trace, pos):],
                             'outputs_ok': outs_restored == portgen.encode(outs_at_save), 'outputs_restored': outs_restored,
                             'steps': steps_of(trace2), 'expected': ref[_count_steps(trace, pos):],
                             'final': _final(p2), 'final_ok': _final(p2) == final_ref})
        except Exception as e:  # noqa
            restored.append({'pos': pos, 'suffix_ok': False, 'error': repr(e)[:200], 'final_ok': False})
        finally:
            sc2.close()
    obs['restored'] = restored
    obs['ref_steps'] = ref
    return obs


def _count_steps(trace, pos):
    return len(steps_of(trace[:pos]))


def _resumes_before(case, trace, pos):
    """number of waits already resumed before the save point = number of 'entered waiting->running' before pos"""
    return sum(1 for e in trace[:pos] if e[0] == 'entered' and e[1] == 'waiting' and e[2] == 'running')


def _drive_events(sc, proc, case):
    """the live run of the restore experiment: the schedule of the case, event by event"""
    import scripted
    for ev in case['events']:
        if ev[0] == 'tick':
            sc.tick()
        elif ev[0] == 'drain':
            for _ in range(ev[1]):
                if not sc.tick():
                    break
        elif ev[0] == 'ctl':
            try:
                scripted.do_ctl(proc, ev[1])
            except Exception:  # noqa: BLE001
                pass
    sc.new_failures()


def _drive(sc, proc, case, skip_resumes=0):
    import scripted
    resumes = [e for e in case['events'] if e[0] == 'ctl' and e[1][0] == 'resume'][skip_resumes:]
    for _ in range(40):
        if not sc.tick():
            if proc.state.value == 'waiting' and resumes:
                scripted.do_ctl(proc, resumes.pop(0)[1])
            else:
                break
    sc.new_failures()


def _final(proc):
    import portgen
    d = {'state': proc.state.value}
    if proc.state.value == 'finished':
        d['result'] = portgen.encode(proc.result())
        d['successful'] = proc.successful()
        d['outputs'] = portgen.encode(dict(proc.outputs))
    elif proc.state.value == 'killed':
        m = proc.killed_msg()
        d['msg'] = None if m is None else m.get('message')
    elif proc.state.value == 'excepted':
        d['exc'] = coqio.canon_exception(proc.exception())
    return d


# ------------------------------------------------------------------ oracle: the property on the implementation
def expected_run(case):
    """Independent reference: interpret the program data directly."""
    prog = case['prog']
    resumes = [e[1] for e in case['events'] if e[0] == 'ctl' and e[1][0] == 'resume']
    steps = []
    cur = ('run', [], {})
    for _ in range(20):
        name, args, kwargs = cur
        steps.append(['step', name, args, kwargs])
        s = prog.get(name)
        if s is None:
            return steps, {'state': 'excepted'}
        r = s['ret']
        k = r[0]
        if k == 'continue':
            cur = (r[1], list(r[2]), dict(r[3]))
        elif k == 'wait':
            if not resumes:
                return steps, {'state': 'waiting'}
            rv = resumes.pop(0)
            cur = (r[1], [rv[1]] if len(rv) > 1 else [], {})
        elif k == 'value':
            return steps, {'state': 'finished', 'result': r[1], 'successful': True}
        elif k == 'unsuccessful':
            return steps, {'state': 'finished', 'result': r[1], 'successful': False}
        elif k == 'stop':
            return steps, {'state': 'finished', 'result': r[1], 'successful': r[2]}
        elif k == 'kill':
            return steps, {'state': 'killed', 'msg': None if r[1] is None else r[1][0]}
        elif k == 'raise':
            return steps, {'state': 'excepted'}
    return steps, {'state': '?'}


def oracle(case, obs):
    if obs['final'] is None:
        return {'signature': 'constructor_raised', 'kind': ''}
    want_steps, want_final = expected_run(case)
    got = [[e[0], e[1], e[2], e[3]] for e in obs['trace'] if e[0] == 'step']
    if got != want_steps:
        for i, (a, b) in enumerate(itertools.zip_longest(got, want_steps)):
            if a != b:
                what = 'kwargs' if a and b and a[:3] == b[:3] else ('args' if a and b and a[1] == b[1] else 'step')
                return {'signature': 'next_step_%s_differ' % what, 'kind': prev_ret(case, want_steps, i), 'got': a, 'want': b}
    f = obs['final']
    if f['state'] != want_final['state']:
        return {'signature': 'final_state_differs', 'kind': '%s:%s' % (want_final['state'], f['state'])}
    acc = f['accessors']
    if want_final['state'] == 'finished':
        if acc['result'] != ['ok', want_final['result']] or acc['successful'] != ['ok', want_final['successful']]:
            return {'signature': 'result_differs', 'kind': 'finished', 'got': [acc['result'], acc['successful']], 'want': want_final}
    if want_final['state'] == 'killed':
        km = acc['killed_msg']
        txt = km[1][1] if km[0] == 'ok' and isinstance(km[1], list) else None
        if txt != want_final['msg']:
            return {'signature': 'kill_message_differs', 'kind': 'killed', 'got': km, 'want': want_final['msg']}
    for r in obs.get('restored', []):
        if not r['suffix_ok']:
            return {'signature': 'restored_run_differs', 'kind': 'steps', 'at': r['pos'], 'detail': {k: r.get(k) for k in ('steps', 'expected', 'error')}}
        if not r['final_ok']:
            return {'signature': 'restored_run_differs', 'kind': 'final', 'at': r['pos'], 'detail': r.get('final')}
        if not r.get('outputs_ok', True):
            return {'signature': 'checkpoint_holds_outputs_emitted_after_it_was_taken', 'kind': 'outputs', 'at': r['pos'],
                    'detail': r.get('outputs_restored')}
    return None


def prev_ret(case, steps, i):
    if i == 0 or i > len(steps):
        return 'first'
    s = case['prog'].get(steps[i - 1][1])
    return s['ret'][0] if s else 'missing'


def nontrivial(case, obs):
    return any(s['ret'][0] == 'continue' and (s['ret'][2] or s['ret'][3]) for s in case['prog'].values()) or \
        any(e[0] == 'ctl' and e[1][0] == 'resume' for e in case['events'])


# ------------------------------------------------------------------ generator
ARGS = [([], {}), ([1], {}), ([1, 'two'], {}), ([], {'k': 5}), ([{'a': [1, 2]}], {'x': None, 'y': 'z'}), ([0, False], {'n': 0})]
MID = [lambda nxt, a: ('continue', nxt, a[0], a[1]),
       lambda nxt, a: ('wait', nxt, 'msg', {'d': 1}),
       lambda nxt, a: ('wait', nxt, None, None)]
ENDS = [('value', 5), ('value', None), ('value', {'a': 1}), ('value', {'__awaitable__': 'done'}), ('value', {'__awaitable__': 'pending'}),
        ('unsuccessful', 3), ('stop', 'r', True), ('stop', 7, False),
        ('kill', ['bye']), ('kill', [None]), ('kill', None), ('raise', 'boom')]
RESUMES = [['resume'], ['resume', 42], ['resume', 'v'], ['resume', {'k': [1]}], ['resume', None]]
ACTS = [[], [('yield',)], [('out', 'o', 1)], [('out', 'n.x', 1)], [('out', 'n.y', 2)]]


def build(mids, end, rng_choices):
    """mids: list of (kind index, args index, resume index, acts index)"""
    names = ['run', 's1', 's2', 's3', 's4']
    prog, events = {}, [['drain', 30]]
    for i, (mk, ai, ri, ci) in enumerate(mids):
        ret = MID[mk](names[i + 1], ARGS[ai])
        prog[names[i]] = S(ACTS[ci], ret)
        if ret[0] == 'wait':
            events += [['ctl', RESUMES[ri]], ['drain', 30]]
    prog[names[len(mids)]] = S([], end)
    return {'prog': prog, 'events': events}


def generate(tier, rng, around=None):
    cases = []
    if tier == 'widen':
        cases += list(around or [])
    # exhaustive over chains of length <= 2 (one or two intermediate commands), sampled beyond
    for mk in range(len(MID)):
        for ai in range(len(ARGS) if mk == 0 else 1):
            for ri in range(len(RESUMES) if mk else 1):
                for end in ENDS:
                    cases.append(build([(mk, ai, ri, 0)], end, None))
    # the same chains with a pause / play pair around the resume (transparent requests: the reference is unchanged)
    for ai in range(len(ARGS)):
        for ri, order in itertools.product(range(len(RESUMES)), (('pause', 'resume', 'play'), ('resume', 'pause', 'play'), ('pause', 'play', 'resume'))):
            c = build([(1, ai, ri, 0)], ENDS[0], None)
            res = [e for e in c['events'] if e[0] == 'ctl'][0]
            ev = [['drain', 30]] + [res if o == 'resume' else ['ctl', [o] + ([None] if o == 'pause' else [])] for o in order] + [['drain', 30]]
            cases.append(dict(c, events=ev))
    # a pause requested while an asynchronous step is in flight takes effect when the step returns its command: a checkpoint taken when
    # the listeners are told of the pause must already hold the next step with its arguments
    for ai in range(len(ARGS)):
        for end in ENDS[:4]:
            prog = {'run': S([('yield',), ('yield',)], ('continue', 's1', ARGS[ai][0], ARGS[ai][1])), 's1': S([], end)}
            for nt in (1, 2):
                cases.append({'prog': prog, 'events': [['tick']] * nt + [['ctl', ['pause', None]], ['drain', 30], ['ctl', ['play']], ['drain', 30]]})
    n = {'quick': 350, 'thorough': 4000, 'widen': 1500}[tier]
    for _ in range(n):
        k = rng.choice([2, 2, 3, 3, 4])
        mids = [(rng.randrange(len(MID)), rng.randrange(len(ARGS)), rng.randrange(len(RESUMES)), rng.randrange(len(ACTS))) for _ in range(k)]
        cases.append(build(mids, rng.choice(ENDS), None))
    return {'cases': cases, 'exhaustive': True,
            'scope': 'every one-command chain: command kind x argument shape x resume value x terminal command; longer chains sampled'}


def shrink_candidates(case):
    names = ['run', 's1', 's2', 's3', 's4']
    prog = case['prog']
    # drop the first step: the chain starts at the second one
    if len(prog) > 1 and prog['run']['ret'][0] in ('continue', 'wait'):
        nxt = prog['run']['ret'][1]
        p2 = {('run' if k == nxt else k): v for k, v in prog.items() if k != 'run'}
        ev = list(case['events'])
        if prog['run']['ret'][0] == 'wait':
            ev = ev[2:] if len(ev) > 2 else ev
        yield dict(case, prog=p2, events=ev)
    for k, v in prog.items():
        if v['actions']:
            yield dict(case, prog=dict(prog, **{k: dict(v, actions=[])}))
