"""C10 — ToContext is a barrier: the next step sees every awaited result.

A case is a scripted WorkChain (outline + predicate stream + one script per step call: context writes,
`to_context(key=future k)` registrations, returned `ToContext`), a table saying what every future id is (a plain
loop future or a real child process started with `self.launch`), and a schedule: the list of things the controlled
scheduler does, ONE loop callback at a time (`tick`), with completions of futures / resume / kill of children
placed between callbacks.  The real plumpy runs it; the Coq model (Outline/Barrier.v) runs the induced list of
model events (Tick = a callback owned by the workchain ran, Complete k outcome = future k became done).
"""
import asyncio
import itertools
import json
import warnings

import coqio
from coqio import c_str, c_bool, c_list, c_opt, c_nat, c_pair, c_val, c_exn
import c09

PROP = 'C10'
CORR_MODULE = 'OutlineModel Barrier Corr_C10'
CASE_TYPE = 'C10_case'
MODEL_FN = 'c10_model'
SHARD = 250
RULE = ('scripted workchain (outline x step scripts registering 1-4 awaitables per step by to_context and/or returned ToContext) '
        'x outcome of every awaited item (value / exception / killed child / cancelled) x completion order x placement of every '
        'completion between individual loop callbacks; real WorkChain classes, real child processes for a subset; '
        'plus an implementation-only family (KImplOnly in Corr_C10: not compared with the model, judged by the oracle): one pause() '
        'at every position of every schedule of 1-2 awaited items, play() after 0..n further events or at the end, then drained; '
        'non-trivial = the chain entered WAITING for at least one awaitable and at least one awaited item completed; '
        'distinct = distinct (program, future table, schedule)')
ASSUMPTIONS = ['no pause / play / kill / resume request reaches the workchain while it waits (those races are property C06)',
               'awaited futures are not cancelled (cancelled cases are run for the model correspondence only, the theorems exclude them)',
               'an awaited child process is represented by its future; the callbacks of the child itself are environment steps',
               'step functions are synchronous (plumpy calls them without await)']
TRUSTED_EXTRA = ['asyncio: done-callbacks of a future are scheduled one ready entry each in registration order, loop._ready is FIFO, '
                 'add_done_callback on a done future schedules at once (calibrated on every case: number of ready callbacks after every event)',
                 'ownership classification of loop handles (workchain vs child) in harness/props/c10.py']


class UserError(Exception):
    pass


# ---------------------------------------------------------------- printing
def c_outcome(o):
    if o[0] == 'val':
        return '(OVal %s)' % c_val(o[1])
    if o[0] == 'exn':
        return '(OExn %s)' % c_exn(o[1])
    return 'OCancel'


def c_event(e):
    if e[0] == 'tick':
        return 'Tick'
    return '(Complete %s %s)' % (c_nat(e[1]), c_outcome(e[2]))


def c_act(a):
    if a[0] == 'set':
        return '(ASet %s %s)' % (c_str(a[1]), c_val(a[2]))
    return '(AReg %s %s)' % (c_str(a[1]), c_nat(a[2]))


def c_ret(r):
    if r[0] == 'none':
        return '(inr RNone)'
    if r[0] == 'ctx':
        return '(inr (RToCtx %s))' % c_list([c_pair(c_str(k), c_nat(f)) for k, f in r[1]])
    if r[0] == 'val':
        return '(inr (ROther %s))' % c_val(r[1])
    return '(inl (EUser %s))' % c_str(r[1])


def c_script(s):
    return '(mk_script %s %s)' % (c_list([c_act(a) for a in s['acts']]), c_ret(s['ret']))


def c_ctx(items):
    return c_list([c_pair(c_str(k), c_val(v)) for k, v in items])


def to_coq(case, obs):
    if case.get('impl_only'):
        return 'KImplOnly'          # pause/play family: judged by the oracle on the implementation, the model has no such events
    steps = c_list(['(%s, %s, %s)' % (c_nat(s['n']), c_ctx(s['ctx']), c_list([c_nat(k) for k in s['done']])) for s in obs['steps']])
    after = c_list([c_opt(a, lambda p: '(%s, %s)' % (c_nat(p[0]), c_nat(p[1]))) for a in obs['after']])
    final = '(%s, %s)' % (c_nat(obs['final'][0]), c_opt(obs['final'][1], c_exn))
    calls = c_list(['(CStep %s)' % c_str(n) if k == 's' else '(CPred %s)' % c_str(n) for k, n in obs['calls']])
    return '(KModel (mk_c10 %s %s %s %s %s %s %s %s %s %s))' % (
        c09.coq_instr(case['outline']), c_list([c_bool(b) for b in case['preds']]),
        c_list([c_script(s) for s in case['scripts']]), c_list([c_event(e) for e in obs['mevents']]),
        steps, after, final, c_ctx(obs['ctx']), c_list([c_exn(e) for e in obs['errs']]), calls)


# ---------------------------------------------------------------- implementation side
_CLASS_CACHE = {}
_CHILD = {}


def child_classes():
    """Real child processes.  hold: waits until the harness resumes it with ['fin', v] / ['exc', tag] or kills it;
    imm / immexc: finishes / raises on its own."""
    import plumpy
    if _CHILD:
        return _CHILD

    class Hold(plumpy.Process):
        @classmethod
        def define(cls, spec):
            super().define(spec)
            spec.outputs.dynamic = True

        def run(self):
            return plumpy.Wait(self.after, 'hold')

        def after(self, cmd):
            if cmd[0] == 'fin':
                self.out('r', cmd[1])
                return None
            raise UserError(cmd[1])

    class Imm(plumpy.Process):
        @classmethod
        def define(cls, spec):
            super().define(spec)
            spec.inputs.dynamic = True
            spec.outputs.dynamic = True

        def run(self):
            if 'tag' in self.inputs:
                raise UserError(self.inputs['tag'])
            self.out('r', self.inputs['v'])

    _CHILD.update(hold=Hold, imm=Imm)
    return _CHILD


def build_class(outline):
    import plumpy
    key = json.dumps(outline)
    if key in _CLASS_CACHE:
        return _CLASS_CACHE[key]
    methods = {}

    def awaitable(self, k):
        """the awaitable behind future id k: a loop future, or a child process launched on first use"""
        h = self._h
        kind = h.table[k]
        if kind[0] == 'plain':
            return h.futs[k]
        if k not in h.children:
            cls = child_classes()
            if kind[1] == 'hold':
                h.children[k] = self.launch(cls['hold'])
            elif kind[1] == 'imm':
                h.children[k] = self.launch(cls['imm'], inputs={'v': kind[2]})
            else:
                h.children[k] = self.launch(cls['imm'], inputs={'tag': kind[2]})
            h.futs[k] = h.children[k].future()
        return h.children[k]

    def mk_step(name):
        def step(self):
            h = self._h
            h.calls.append(['s', name])
            item = h.scripts.pop(0) if h.scripts else None
            if item is None:
                return None
            for a in item['acts']:
                if a[0] == 'set':
                    self.ctx[a[1]] = a[2]
                else:
                    self.to_context(**{a[1]: awaitable(self, a[2])})
                    h.cur_regs.append([a[1], a[2]])
            r = item['ret']
            if r[0] == 'none':
                return None
            if r[0] == 'ctx':
                d = plumpy.ToContext(**{k: awaitable(self, f) for k, f in r[1]})
                h.cur_regs.extend([[k, f] for k, f in r[1]])
                return d
            if r[0] == 'val':
                return r[1]
            raise UserError(r[1])
        step.__name__ = name
        return step

    def mk_pred(name):
        def pred(self):
            h = self._h
            h.calls.append(['p', name])
            return h.preds.pop(0) if h.preds else False
        pred.__name__ = name
        return pred

    def conv(t):
        k = t[0]
        if k == 'step':
            methods.setdefault(t[1], mk_step(t[1]))
            return methods[t[1]]
        if k == 'block':
            return plumpy.workchains._Block([conv(i) for i in t[1]])
        if k == 'if':
            node = None
            for n, (p, body) in enumerate(t[1]):
                instrs = [conv(i) for i in body]
                if p is None:
                    node = node.else_(*instrs)
                    continue
                methods.setdefault(p, mk_pred(p))
                node = plumpy.if_(methods[p])(*instrs) if n == 0 else node.elif_(methods[p])(*instrs)
            return node
        if k == 'while':
            methods.setdefault(t[1], mk_pred(t[1]))
            return plumpy.while_(methods[t[1]])(*[conv(i) for i in t[2]])
        if k == 'return':
            return plumpy.return_ if t[1] is None else plumpy.return_(t[1])
        raise ValueError(t)

    cmds = [conv(i) for i in outline[1]] if outline[0] == 'block' else [conv(outline)]

    def define(cls, spec):
        super(klass, cls).define(spec)
        spec.outline(*cmds)

    def _do_step(self):
        # observation only: what the step that starts now can see
        h = self._h
        h.step_entry(self)
        ret = super(klass, self)._do_step()
        h.step_exit(ret)
        return ret

    ns = dict(methods)
    ns['define'] = classmethod(define)
    ns['_do_step'] = _do_step
    klass = type('WC10_%d' % len(_CLASS_CACHE), (plumpy.WorkChain,), ns)
    _CLASS_CACHE[key] = klass
    return klass


def jcopy(v):
    # values the scripts can produce are JSON-able; anything else (only a defective implementation puts it there)
    # is shown by its type name so that the run can be reported instead of crashing the harness
    return json.loads(json.dumps(v, default=lambda o: {'__obj__': type(o).__name__}))


STATE_CODE = {'created': 0, 'waiting': 1, 'finished': 2, 'excepted': 3, 'killed': 8, 'running': 9}


class Harness:
    """state shared between the generated step functions and the scheduler loop"""

    def __init__(self, case, sched):
        self.table = case['futs']
        self.scripts = [dict(s) for s in case['scripts']]
        self.preds = list(case['preds'])
        self.calls = []
        self.sched = sched
        self.futs = {}
        self.children = {}
        for k, kind in enumerate(self.table):
            if kind[0] == 'plain':
                self.futs[k] = sched.loop.create_future()
        self.done_order = []
        self.outcomes = {}
        self.steps = []
        self.cur_regs = []

    def done_now(self):
        """ids of the futures that are done right now, in completion order"""
        out = [k for k in self.done_order if self.futs[k].done()]
        out += [k for k in sorted(self.futs) if self.futs[k].done() and k not in self.done_order]
        return out

    def step_entry(self, wc):
        self.cur_regs = []
        self.steps.append({'n': len(self.steps), 'ctx': jcopy([[k, v] for k, v in wc.ctx.__dict__.items()]),
                           'done': self.done_now(), 'regs': None, 'waits': False})

    def step_exit(self, ret):
        import plumpy
        self.steps[-1]['regs'] = list(self.cur_regs)
        self.steps[-1]['waits'] = isinstance(ret, plumpy.Wait)

    def newly_done(self):
        out = []
        for k in sorted(self.futs):
            f = self.futs[k]
            if f.done() and k not in self.done_order:
                self.done_order.append(k)
                if f.cancelled():
                    o = ['cancel']
                elif f.exception() is not None:
                    o = ['exn', coqio.canon_exception(f.exception())]
                else:
                    o = ['val', jcopy(f.result())]
                self.outcomes[k] = o
                out.append(['done', k, o])
        return out


def owner_is(h, wc, task):
    """does this loop handle belong to the workchain (its stepping task, a completion callback of one of its
    Waiting states, the done-callback of its own future)?"""
    import plumpy
    cb = h._callback
    s = getattr(cb, '__self__', None)
    if s is task:
        return True
    if isinstance(s, plumpy.workchains.Waiting):
        return s.process is wc
    for cell in (getattr(cb, '__closure__', None) or ()):
        try:
            if cell.cell_contents is wc:
                return True
        except ValueError:
            pass
    return False


def run_impl(case):
    warnings.simplefilter('ignore')
    from sched import Sched
    s = Sched()
    try:
        klass = build_class(case['outline'])
        wc = klass(loop=s.loop)
        h = Harness(case, s)
        wc._h = h
        task = s.loop.create_task(wc.step_until_terminated())
        mevents, after, errs = [], [], []
        touched = set()
        ctl_errors = []

        def observe(evs):
            for ctxd in s.loop_errors:
                e = ctxd.get('exception')
                if e is not None:
                    errs.append(coqio.canon_exception(e))
            s.loop_errors[:] = []
            if not evs:
                return
            mevents.extend(evs)
            nready = sum(1 for x in s.ready() if owner_is(x, wc, task))
            after.extend([None] * (len(evs) - 1) + [[nready, STATE_CODE.get(wc.state.value, 7)]])

        def real_tick():
            r = s.ready()
            if not r:
                observe([['tick']])
                return False
            mine = owner_is(r[0], wc, task)
            s.tick()
            observe(([['tick']] if mine else []) + h.newly_done())
            return True

        for e in case['events']:
            k = e[0]
            if k == 'tick':
                real_tick()
            elif k == 'done':
                f = h.futs.get(e[1])
                if f is not None and h.table[e[1]][0] == 'plain' and not f.done():
                    o = e[2]
                    if o[0] == 'val':
                        f.set_result(o[1])
                    elif o[0] == 'exn':
                        f.set_exception(UserError(o[1][1]))
                    else:
                        f.cancel()
                    observe(h.newly_done())
            elif k in ('cres', 'ckill'):
                c = h.children.get(e[1])
                # one control action per child: a kill after a resume that has not been consumed yet raises inside
                # plumpy (KNOWN finding D4, property C04) — not this property's subject
                if c is not None and not c.has_terminated() and c.state.value == 'waiting' and e[1] not in touched:
                    touched.add(e[1])
                    if k == 'ckill':
                        c.kill(e[2])
                    else:
                        c.resume(e[2])
                    observe(h.newly_done())
            elif k in ('pause', 'play'):
                # control requests of the pause/play family (impl-only cases); their own races are C05/C06's subject,
                # an exception escaping from the request itself is recorded, not judged here
                if not wc.has_terminated():
                    try:
                        wc.pause() if k == 'pause' else wc.play()
                    except Exception as exc:  # noqa: BLE001
                        ctl_errors.append(coqio.canon_exception(exc))
                    observe(h.newly_done())
            else:
                raise ValueError(e)
        # drain: run callbacks until nothing is ready (bounded), so that the final state is a quiescent one; in the
        # pause/play family every pause is eventually followed by play (then drained again)
        for _round in range(4):
            for _ in range(case.get('drain', 40)):
                if not s.ready():
                    break
                real_tick()
            if case.get('impl_only') and not wc.has_terminated() and wc.paused:
                try:
                    wc.play()
                except Exception as exc:  # noqa: BLE001
                    ctl_errors.append(coqio.canon_exception(exc))
                continue
            break
        state = wc.state.value
        exc = coqio.canon_exception(wc.exception()) if state == 'excepted' else None
        steps = [dict(st) for st in h.steps]
        return {'steps': steps, 'mevents': mevents, 'after': after, 'final': [STATE_CODE.get(state, 7), exc],
                'ctx': jcopy([[k, v] for k, v in wc.ctx.__dict__.items()]), 'errs': errs, 'calls': h.calls,
                'outcomes': {str(k): v for k, v in h.outcomes.items()}, 'done_order': list(h.done_order),
                'fates': {str(k): c.state.value for k, c in h.children.items()},
                'quiescent': not s.ready(), 'ctl_errors': ctl_errors}
    finally:
        s.close()


# ---------------------------------------------------------------- oracle: the property, directly on the real trace
def eff_dict(regs):
    """self._awaitables after the registrations: future -> key (dict semantics)"""
    d = {}
    for key, k in regs:
        d[k] = key
    return d


def has_cancel(case, obs):
    return any(o[0] == 'cancel' for o in obs['outcomes'].values())


def oracle(case, obs):
    if has_cancel(case, obs):
        return None                 # cancelled awaitables are outside the property's quantifier
    steps = obs['steps']
    outc = {int(k): v for k, v in obs['outcomes'].items()}
    # what really happened to an awaited child, whatever its future says
    dead = {int(k) for k, v in obs.get('fates', {}).items() if v in ('killed', 'excepted')}
    for k in dead:
        if k in outc and outc[k][0] == 'val':
            return {'signature': 'killed_or_excepted_child_delivered_a_value', 'kind': 'failure', 'future': k, 'observed': outc[k]}
    for i, st in enumerate(steps):
        if not st['waits']:
            continue
        d = eff_dict(st['regs'])
        if not d:
            continue
        nxt = steps[i + 1] if i + 1 < len(steps) else None
        # callback order: futures already done when the wait was entered (dict order), then completion order
        early = [k for k in d if k in st['done']]
        late = [k for k in obs['done_order'] if k in d and k not in early]
        order = early + late
        failed = [k for k in order if outc[k][0] == 'exn']
        if nxt is not None:
            for k, key in d.items():
                if k not in nxt['done']:
                    return {'signature': 'step_started_before_awaitable_done', 'kind': 'barrier', 'step': i + 1, 'future': k}
                if outc[k][0] != 'val':
                    return {'signature': 'step_started_after_failed_awaitable', 'kind': 'failure', 'step': i + 1, 'future': k}
            ctx = dict((k, v) for k, v in nxt['ctx'])
            for k, key in d.items():
                same = [k2 for k2, key2 in d.items() if key2 == key]
                if key not in ctx:
                    return {'signature': 'awaited_result_missing_in_ctx', 'kind': 'barrier', 'step': i + 1, 'key': key}
                if len(same) == 1 and ctx[key] != outc[k][1]:
                    return {'signature': 'awaited_result_wrong_in_ctx', 'kind': 'barrier', 'step': i + 1, 'key': key,
                            'expected': outc[k][1], 'observed': ctx[key]}
                if ctx[key] not in [outc[k2][1] for k2 in same]:
                    return {'signature': 'awaited_result_wrong_in_ctx', 'kind': 'barrier', 'step': i + 1, 'key': key}
        else:
            # the chain is still in (or died in) this wait; the run was drained to quiescence
            if not obs['quiescent']:
                continue
            if failed:
                want = outc[failed[0]][1]
                if obs['final'][0] != STATE_CODE['excepted'] or obs['final'][1] != want:
                    return {'signature': 'failed_awaitable_did_not_except_the_chain', 'kind': 'failure', 'step': i,
                            'expected': want, 'observed': obs['final']}
            elif all(k in outc for k in d):
                return {'signature': 'all_awaitables_done_but_next_step_not_started', 'kind': 'progress', 'step': i,
                        'observed': obs['final']}
            elif obs['final'][0] != STATE_CODE['waiting']:
                return {'signature': 'left_the_wait_with_pending_awaitables', 'kind': 'barrier', 'step': i, 'observed': obs['final']}
    return None


def nontrivial(case, obs):
    return any(st['waits'] and st['regs'] for st in obs['steps']) and bool(obs['outcomes'])


def distribution(cases, obs):
    d = {'waits': 0, 'next_step_started_after_wait': 0, 'excepted_by_awaitable': 0, 'still_waiting': 0, 'loop_errors': 0,
         'with_children': 0, 'with_cancel': 0, 'outcome_val': 0, 'outcome_exn': 0, 'outcome_killed': 0, 'model_events': 0,
         'already_done_at_registration': 0, 'duplicate_key_or_future': 0,
         'impl_only_pause_play_cases': 0, 'impl_only_pause_while_waiting': 0, 'impl_only_excepted': 0, 'impl_only_finished': 0,
         'impl_only_ctl_errors': 0}
    for c, o in zip(cases, obs):
        if c.get('impl_only'):
            d['impl_only_pause_play_cases'] += 1
            d['impl_only_pause_while_waiting'] += any(st['waits'] for st in o['steps'])
            d['impl_only_excepted'] += o['final'][0] == 3
            d['impl_only_finished'] += o['final'][0] == 2
            d['impl_only_ctl_errors'] += len(o.get('ctl_errors', []))
            continue
        ws = [i for i, st in enumerate(o['steps']) if st['waits'] and st['regs']]
        d['waits'] += len(ws)
        d['next_step_started_after_wait'] += sum(1 for i in ws if i + 1 < len(o['steps']))
        d['excepted_by_awaitable'] += (o['final'][0] == 3 and bool(ws) and ws[-1] == len(o['steps']) - 1)
        d['still_waiting'] += o['final'][0] == 1
        d['loop_errors'] += len(o['errs'])
        d['with_children'] += any(k[0] == 'child' for k in c['futs'])
        d['with_cancel'] += has_cancel(c, o)
        d['model_events'] += len(o['mevents'])
        for v in o['outcomes'].values():
            if v[0] == 'val':
                d['outcome_val'] += 1
            elif v[0] == 'exn' and v[1][0] == 'killed':
                d['outcome_killed'] += 1
            elif v[0] == 'exn':
                d['outcome_exn'] += 1
        for i in ws:
            st = o['steps'][i]
            d['already_done_at_registration'] += any(k in st['done'] for _, k in st['regs'])
            ks = [k for _, k in st['regs']]
            keys = [key for key, k in eff_dict(st['regs']).items()]
            d['duplicate_key_or_future'] += (len(set(ks)) < len(ks)) or len(set(eff_dict(st['regs']).values())) < len(eff_dict(st['regs']))
    return d


# ---------------------------------------------------------------- generators
KEYS = ['a', 'b', 'c', 'd']


def linear(n):
    return c09.norm(['block', [['step', 's%d' % (i + 1)] for i in range(n)]])


def reg_script(pairs, style, sets=()):
    """pairs: [(key, fut)].  style: 'call' (to_context), 'ret' (returned ToContext), 'mixed' (first by call, rest returned)"""
    acts = [['set', k, v] for k, v in sets]
    if style == 'call':
        return {'acts': acts + [['reg', k, f] for k, f in pairs], 'ret': ['none']}
    if style == 'ret':
        return {'acts': acts, 'ret': ['ctx', [[k, f] for k, f in pairs]]}
    return {'acts': acts + [['reg', k, f] for k, f in pairs[:1]], 'ret': ['ctx', [[k, f] for k, f in pairs[1:]]]}


def interleavings(completes, nticks):
    """all sequences made of the given complete events (in this order) and nticks ticks"""
    m = len(completes)
    for pos in itertools.combinations(range(m + nticks), m):
        seq, ci = [], 0
        pos = set(pos)
        for i in range(m + nticks):
            if i in pos:
                seq.append(completes[ci])
                ci += 1
            else:
                seq.append(['tick'])
        yield seq


OUTCOMES = [['val', 7], ['exn', ['user', 'boom']]]


def outcome_for(k, kind):
    if kind == 'val':
        return ['val', 10 + k]
    if kind == 'exn':
        return ['exn', ['user', 'e%d' % k]]
    return ['cancel']


def one_wait_cases(m, style, kinds_list, orders, nticks, rng, keep=1.0):
    """one waiting step with m plain futures, then a step that reads; every placement"""
    out = []
    pairs = [(KEYS[i], i) for i in range(m)]
    scripts = [reg_script(pairs, style), {'acts': [], 'ret': ['none']}]
    for kinds in kinds_list:
        for order in orders:
            completes = [['done', k, outcome_for(k, kinds[k])] for k in order]
            for seq in interleavings(completes, nticks):
                if keep < 1.0 and rng.random() > keep:
                    continue
                out.append({'outline': linear(3), 'preds': [], 'scripts': scripts, 'futs': [['plain']] * m, 'events': seq})
    return out


def random_case(rng, children):
    nsteps = rng.randint(2, 4)
    shape = rng.random()
    if shape < 0.7:
        outline = linear(nsteps)
        preds = []
    elif shape < 0.85:
        outline = ['block', [['step', 's1'], ['while', 'p1', [['step', 's2']]], ['step', 's3']]]
        preds = [rng.random() < 0.7 for _ in range(3)]
    else:
        outline = ['block', [['step', 's1'], ['if', [['p1', [['step', 's2']]], [None, [['step', 's3']]]]], ['step', 's4']]]
        preds = [rng.random() < 0.5]
    nf = rng.randint(1, 5)
    table = []
    for k in range(nf):
        if children and rng.random() < 0.6:
            r = rng.random()
            table.append(['child', 'hold'] if r < 0.6 else (['child', 'imm', 20 + k] if r < 0.85 else ['child', 'immexc', 'ie%d' % k]))
        else:
            table.append(['plain'])
    scripts = []
    for _ in range(rng.randint(1, 4)):
        n = rng.choice([0, 1, 1, 2, 2, 3, 4])
        pairs = [(rng.choice(KEYS), rng.randrange(nf)) for _ in range(n)]
        style = rng.choice(['call', 'ret', 'mixed'])
        if style != 'call':
            # a returned ToContext is a dict: its keys are distinct
            seen, head, rest = set(), pairs[:1] if style == 'mixed' else [], []
            for key, f in (pairs[1:] if style == 'mixed' else pairs):
                if key not in seen:
                    seen.add(key)
                    rest.append((key, f))
            pairs = head + rest
        sets = [(rng.choice(KEYS), rng.randint(0, 3))] if rng.random() < 0.3 else []
        sc = reg_script(pairs, style, sets)
        r = rng.random()
        if r < 0.05:
            sc['ret'] = ['raise', 'userboom']
        elif r < 0.09:
            sc['ret'] = ['val', 5]
        scripts.append(sc)
    events = []
    todo = list(range(nf))
    rng.shuffle(todo)
    nev = rng.randint(nf, nf + 8)
    for _ in range(nev):
        if todo and rng.random() < 0.45:
            k = todo.pop()
            kind = table[k]
            r = rng.random()
            if kind[0] == 'plain':
                events.append(['done', k, outcome_for(k, 'val' if r < 0.7 else ('exn' if r < 0.95 or not children else 'val'))])
            elif kind[1] == 'hold':
                if r < 0.55:
                    events.append(['cres', k, ['fin', 30 + k]])
                elif r < 0.8:
                    events.append(['cres', k, ['exc', 'ce%d' % k]])
                else:
                    events.append(['ckill', k, 'k%d' % k])
                if rng.random() < 0.5:
                    todo.insert(0, k)       # try again later (the child may not have been launched / waiting yet)
        else:
            events.append(['tick'])
    return {'outline': c09.norm(outline), 'preds': preds, 'scripts': scripts, 'futs': table, 'events': events}


def with_pause_play(seq, play_offsets):
    """every placement of one pause() in seq, followed by play() after `off` further events (None: only the final play)"""
    n = len(seq)
    for i in range(n + 1):
        for off in play_offsets:
            if off is None or i + off >= n:
                yield seq[:i] + [['pause']] + seq[i:]
                if off is not None:
                    break
            else:
                yield seq[:i] + [['pause']] + seq[i:i + off] + [['play']] + seq[i + off:]


def pause_play_cases(rng, thorough):
    """pause()/play() placed between the completions and the loop callbacks; 1-2 awaited items, value/exception mixes,
    every completion order; always completed by play + drain.  Judged by the oracle on the implementation only."""
    out = []
    for m in (1, 2):
        pairs = [(KEYS[i], i) for i in range(m)]
        nt = m + 3 if m == 1 else m + 2
        offs = list(range(0, 8)) + [None] if (thorough or m == 1) else [0, 1, 2, None]
        for kinds in itertools.product(['val', 'exn'], repeat=m):
            for order in itertools.permutations(range(m)):
                completes = [['done', k, outcome_for(k, kinds[k])] for k in order]
                for base in interleavings(completes, nt):
                    for seq in with_pause_play(base, offs):
                        if m == 2 and not thorough and rng.random() > 0.5:
                            continue
                        style = rng.choice(['call', 'ret', 'mixed'])
                        out.append({'outline': linear(3), 'preds': [], 'futs': [['plain']] * m, 'events': seq, 'impl_only': True,
                                    'scripts': [reg_script(pairs, style), {'acts': [], 'ret': ['none']}]})
    return out


def generate(tier, rng, around=None):
    cases = []
    thorough = tier == 'thorough'
    if tier == 'widen':
        cases += list(around or [])
        for _ in range(1500):
            cases.append(random_case(rng, rng.random() < 0.5))
        return {'cases': cases, 'exhaustive': False, 'scope': 'random neighbourhood'}
    kinds2 = ['val', 'exn']
    # bounded-exhaustive: ONE waiting step, m plain futures, both registration styles, every outcome mix, every completion
    # order, every placement among the first m+3 callbacks (later placements are equivalent: the chain is quiescent)
    for m in (1, 2, 3, 4):
        allkinds = list(itertools.product(kinds2, repeat=m))
        orders = list(itertools.permutations(range(m)))
        nt = m + 3
        if m <= 2:
            for style in ('call', 'ret', 'mixed'):
                cases += one_wait_cases(m, style, allkinds, orders, nt, rng)
        elif m == 3:
            keep = 1.0 if thorough else 0.12
            for style in ('call', 'ret', 'mixed'):
                cases += one_wait_cases(m, style, allkinds, orders, nt, rng, keep if style == 'mixed' or thorough else keep / 2)
        else:
            keep = 0.05 if thorough else 0.004
            cases += one_wait_cases(m, 'mixed', allkinds, orders, nt, rng, keep)
    # cancelled futures (model correspondence only)
    for m in (1, 2):
        kl = [k for k in itertools.product(['val', 'exn', 'cancel'], repeat=m) if 'cancel' in k]
        cases += one_wait_cases(m, 'call', kl, list(itertools.permutations(range(m))), m + 3, rng, 1.0 if thorough else 0.5)
    # duplicate keys / the same future under two keys / re-assignment of a key by a later step / ToContext in the last step
    dup = [
        [{'acts': [['reg', 'a', 0], ['reg', 'a', 1]], 'ret': ['none']}, {'acts': [], 'ret': ['none']}],
        [{'acts': [['reg', 'a', 0], ['reg', 'b', 0]], 'ret': ['none']}, {'acts': [], 'ret': ['none']}],
        [{'acts': [['reg', 'a', 0]], 'ret': ['ctx', [['a', 1]]]}, {'acts': [], 'ret': ['none']}],
        [{'acts': [['reg', 'a', 0]], 'ret': ['ctx', [['b', 0]]]}, {'acts': [], 'ret': ['none']}],
        [{'acts': [['set', 'a', 1], ['reg', 'a', 0]], 'ret': ['none']}, {'acts': [['reg', 'a', 1]], 'ret': ['none']}, {'acts': [], 'ret': ['none']}],
        [{'acts': [['reg', 'a', 0]], 'ret': ['none']}, {'acts': [['set', 'a', 99]], 'ret': ['ctx', [['b', 1]]]}, {'acts': [], 'ret': ['ctx', [['c', 1]]]}],
        [{'acts': [['reg', 'a', 0]], 'ret': ['none']}, {'acts': [['reg', 'b', 0], ['reg', 'c', 1]], 'ret': ['none']}, {'acts': [], 'ret': ['none']}],
    ]
    for scripts in dup:
        for kinds in itertools.product(kinds2, repeat=2):
            for order in itertools.permutations(range(2)):
                completes = [['done', k, outcome_for(k, kinds[k])] for k in order]
                for seq in interleavings(completes, 6 if len(scripts) == 3 else 5):
                    if len(scripts) == 3 and not thorough and rng.random() > 0.5:
                        continue
                    cases.append({'outline': linear(3), 'preds': [], 'scripts': scripts, 'futs': [['plain']] * 2, 'events': seq})
    # real child processes: one or two held children finished / failed / killed at every boundary
    for style in ('call', 'ret'):
        for acts in itertools.product([['cres', ['fin', 5]], ['cres', ['exc', 'cx']], ['ckill', 'bye']], repeat=2):
            evs = [[a[0], k, a[1]] for k, a in enumerate(acts)]
            for order in itertools.permutations(range(2)):
                for seq in interleavings([evs[k] for k in order], 7):
                    if seq[0][0] != 'tick' or (not thorough and rng.random() > 0.25):
                        continue
                    cases.append({'outline': linear(3), 'preds': [],
                                  'scripts': [reg_script([('a', 0), ('b', 1)], style), {'acts': [], 'ret': ['none']}],
                                  'futs': [['child', 'hold'], ['child', 'hold']], 'events': seq})
    for kind in (['child', 'imm', 4], ['child', 'immexc', 'ix']):
        for other in (['val', 1], ['exn', ['user', 'pe']]):
            for seq in interleavings([['done', 1, other]], 8):
                cases.append({'outline': linear(3), 'preds': [],
                              'scripts': [reg_script([('a', 0), ('b', 1)], 'mixed'), {'acts': [], 'ret': ['none']}],
                              'futs': [kind, ['plain']], 'events': seq})
    # random programs: several waiting steps, if_/while_ outlines, raising steps, children
    for _ in range(4000 if thorough else 500):
        cases.append(random_case(rng, False))
    for _ in range(3000 if thorough else 400):
        cases.append(random_case(rng, True))
    # pause()/play() between completions and callbacks: implementation only (the barrier model has no such events)
    cases += pause_play_cases(rng, thorough)
    return {'cases': cases, 'exhaustive': True,
            'scope': 'one waiting step with m <= 2 plain futures (m <= 3 in thorough): both registration styles + mixed x every outcome mix '
                     '(value / exception) x every completion order x every placement among the first m+3 loop callbacks; sampled beyond'}


def shrink_candidates(case):
    ev = case['events']
    for i in range(len(ev)):
        yield dict(case, events=ev[:i] + ev[i + 1:])
    sc = case['scripts']
    for i in range(len(sc)):
        if len(sc) > 1:
            yield dict(case, scripts=sc[:i] + sc[i + 1:])
        for j in range(len(sc[i]['acts'])):
            s2 = dict(sc[i], acts=sc[i]['acts'][:j] + sc[i]['acts'][j + 1:])
            yield dict(case, scripts=sc[:i] + [s2] + sc[i + 1:])
        if sc[i]['ret'][0] == 'ctx' and len(sc[i]['ret'][1]) > 0:
            for j in range(len(sc[i]['ret'][1])):
                s2 = dict(sc[i], ret=['ctx', sc[i]['ret'][1][:j] + sc[i]['ret'][1][j + 1:]])
                yield dict(case, scripts=sc[:i] + [s2] + sc[i + 1:])
