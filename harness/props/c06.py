"""C06 — a wake-up is never lost to a concurrent pause or interruption."""
import itertools
import json

import life
from life import CORR_MODULE, CASE_TYPE, MODEL_FN, CORR_FILE, to_coq, distribution, script as S

PROP = 'C06'
SHARD = 200
RULE = ('waiting program x every sequence of <= 3 events from {resume v, resume w, resume (no value), pause, play, kill (thorough)} placed at every callback '
        'boundary, several of them inside one loop iteration, completed by play + drain; non-trivial = a resume was accepted while a pause / '
        'interruption was pending or in the same loop iteration as another request; distinct = distinct (program, schedule)')
ASSUMPTIONS = ['life-cycle hooks and listeners do not raise', 'the schedule ends with play and a drain',
               'the awaited-futures half (workchain ToContext) under pause is checked on the implementation by the oracle of C10/C06; the M1 model has plain waits']


def programs():
    P = {}
    P['wait'] = {'run': S([], ('wait', 's1', 'waiting', None)), 's1': S([('observe',)], ('value', 1))}
    P['wait_async'] = {'run': S([('yield',)], ('wait', 's1', None, {'d': 1})), 's1': S([('yield',)], ('continue', 's2', [], {})), 's2': S([], ('value', 2))}
    P['wait2'] = {'run': S([], ('wait', 's1', None, None)), 's1': S([], ('wait', 's2', 'again', None)), 's2': S([], ('value', 'end'))}
    return P


def run_impl(case):
    return life.strip_obs(life.run_case(case))


def oracle(case, obs):
    if obs['final'] is None:
        return {'signature': 'constructor_raised', 'kind': ''}
    tr = obs['trace']
    cur = None
    wait_no = 0
    accepted = {}       # wait number -> first accepted resume value (list: [] or [v])
    pending = None      # wait number whose wake-up has been accepted but whose continuation has not started
    killed_or_failed = False
    for i, e in enumerate(tr):
        if e[0] == 'entered':
            cur = e[2]
            if cur == 'waiting':
                wait_no += 1
        elif e[0] == 'ctl':
            c, r = e[1], e[2]
            if c[0] in ('resume', 'pause', 'play') and r[0] == 'raised' and not (c[0] == 'resume' and cur != 'waiting'):
                return {'signature': '%s_raised' % c[0], 'kind': str(r[1]), 'context': context(case)}
            if c[0] == 'resume' and cur == 'waiting' and r[0] != 'raised' and wait_no not in accepted:
                accepted[wait_no] = [c[1]] if len(c) > 1 else []
                pending = wait_no
            if c[0] == 'kill' and r[0] != 'raised' and r != ['bool', False]:
                killed_or_failed = True
        elif e[0] == 'step' and pending is not None:
            want = accepted[pending]
            if e[2] != want or e[3] != {}:
                return {'signature': 'continuation_got_other_arguments', 'kind': '%r instead of %r' % (e[2], want), 'context': context(case)}
            pending = None
        elif e[0] == 'loop_error':
            return {'signature': 'exception_escaped_into_the_loop', 'kind': str(e[1]), 'context': context(case)}
    f = obs['final']
    if pending is not None and not killed_or_failed:
        return {'signature': 'wake_up_lost', 'kind': '%s paused=%s' % (f['state'], f['paused']), 'context': context(case)}
    # the continuation of a wait runs exactly once
    names = [e[1] for e in tr if e[0] == 'step']
    for n in set(names):
        if names.count(n) > 1:
            return {'signature': 'step_repeated', 'kind': n, 'context': context(case)}
    return None


def context(case):
    return '>'.join(e[1][0] for e in case['events'] if e[0] == 'ctl')


def nontrivial(case, obs):
    if obs['final'] is None:
        return False
    ctl = [e for e in obs['trace'] if e[0] == 'ctl']
    return any(e[1][0] == 'resume' and e[2][0] != 'raised' for e in ctl) and any(e[1][0] in ('pause', 'play', 'kill') for e in ctl)


EVENTS = [['ctl', ['resume', 42]], ['ctl', ['resume', 'w']], ['ctl', ['resume']], ['ctl', ['pause', 'p']], ['ctl', ['play']]]


def generate(tier, rng, around=None):
    cases = []
    if tier == 'widen':
        cases += list(around or [])
    evs = EVENTS + ([['ctl', ['kill', 'k']]] if tier != 'quick' else [])
    tail = [['ctl', ['play']], ['drain', 30], ['ctl', ['resume', 'late']], ['drain', 30]]
    for name, prog in programs().items():
        n = life.count_ticks(prog) + 2
        base = {'prog': prog, '_prog': name}
        singles = [(b, e) for b in range(n + 1) for e in evs]
        for b, e in singles:
            cases.append(dict(base, events=life.place(n, [(b, e)]) + tail))
        pairs = [(i, j) for i in range(len(singles)) for j in range(len(singles)) if singles[i][0] <= singles[j][0]]
        k = {'quick': 500, 'thorough': 100000, 'widen': 2000}[tier]
        for i, j in (pairs if len(pairs) <= k else rng.sample(pairs, k)):
            cases.append(dict(base, events=life.place(n, [singles[i], singles[j]]) + tail))
        trip = [(a, b, c) for a in range(len(singles)) for b in range(len(singles)) for c in range(len(singles))
                if singles[a][0] <= singles[b][0] <= singles[c][0]]
        kt = {'quick': 500, 'thorough': 12000, 'widen': 3000}[tier]
        for t in (trip if len(trip) <= kt else rng.sample(trip, kt)):
            cases.append(dict(base, events=life.place(n, [singles[x] for x in t]) + tail))
    # the same schedules with a listener that reacts to a notification with play() of its own (re-entrantly, from inside the
    # transition or the pause that notifies it): listener scripts are part of the quantifier of the all-run theorems; play() from
    # anywhere only withdraws or ends a pause, so every demand of the oracle stays valid
    pool = [c for c in cases if '_corpus' not in c]
    kl = {'quick': 150, 'thorough': 4000, 'widen': 400}[tier]
    for c in (pool if len(pool) <= kl else rng.sample(pool, kl)):
        l = rng.choice(['on_process_running', 'on_process_waiting', 'on_process_paused', 'on_process_played'])
        cases.append(dict(c, listeners=[[l, rng.choice([0, 1]), ['play']]], _prog=c['_prog'] + '+listener'))
    return {'cases': cases, 'exhaustive': False,
            'scope': '3 waiting programs x every single event at every boundary; ordered pairs and triples (several events in one loop iteration) sampled; '
                     'sampled: the same with a listener reacting to a notification with play()'}


def shrink_candidates(case):
    ev = case['events']
    for i in range(len(ev) - 4):
        if ev[i][0] != 'tick':
            yield dict(case, events=ev[:i] + ev[i + 1:])
