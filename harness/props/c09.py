"""C09 — a WorkChain executes its outline as the structured program it denotes."""
import asyncio
import itertools
import json
import warnings

import coqio
from coqio import c_str, c_bool, c_list, c_opt, c_Z, c_pair, c_val, c_exn

PROP = 'C09'
CORR_MODULE = 'OutlineModel Corr_C09'
CASE_TYPE = 'C09_case'
MODEL_FN = 'c09_model'
SHARD = 250
RULE = ('outline x predicate stream x step-return stream; real WorkChain class generated per outline and executed; '
        'non-trivial = at least one predicate evaluated or a chain-stopping event (return_, value, exception, ToContext) occurred; '
        'distinct = distinct (outline, streams)')
ASSUMPTIONS = ['step and predicate functions are deterministic functions of the scripted streams',
               'awaited futures are already completed (the barrier itself is property C10)']

# ---------------------------------------------------------------- outline terms
# ["step", name] | ["block", [..]] | ["if", [[pred|None, [..]], ...]] | ["while", pred, [..]] | ["return", code|None]


def coq_instr(t):
    k = t[0]
    if k == 'step':
        return '(IStep %s)' % c_str(t[1])
    if k == 'block':
        return '(IBlock %s)' % coq_block(t[1])
    if k == 'if':
        return '(IIf %s)' % coq_branches(t[1])
    if k == 'while':
        return '(IWhile %s %s)' % (coq_pred(t[1]), coq_block(t[2]))
    if k == 'return':
        return '(IReturn %s)' % c_opt(t[1], c_Z)
    raise ValueError(t)


def coq_pred(p):
    return 'PTrue' if p is None else '(PUser %s)' % c_str(p)


def coq_block(b):
    out = 'BNil'
    for i in reversed(b):
        out = '(BCons %s %s)' % (coq_instr(i), out)
    return out


def coq_branches(brs):
    out = 'BrNil'
    for p, body in reversed(brs):
        out = '(BrCons %s %s %s)' % (coq_pred(p), coq_block(body), out)
    return out


def coq_rv(r):
    if r[0] == 'none':
        return 'RNone'
    if r[0] == 'ctx':
        return '(RToCtx %s)' % c_list([c_pair(c_str(k), c_val(v)) for k, v in r[1]])
    if r[0] == 'val':
        return '(ROther %s)' % c_val(r[1])
    raise ValueError(r)


def coq_sret(item):
    if item['ret'][0] == 'raise':
        ret = '(inl (EUser %s))' % c_str(item['ret'][1])
    else:
        ret = '(inr %s)' % coq_rv(item['ret'])
    return '(mk_sret %s %s)' % (c_list([c_pair(c_str(k), c_val(v)) for k, v in item['reg']]), ret)


def to_coq(case, obs):
    calls = c_list(['(CStep %s)' % c_str(n) if k == 's' else '(CPred %s)' % c_str(n) for k, n in obs['calls']])
    if obs['result'][0] == 'exn':
        res = '(inl %s)' % c_exn(obs['result'][1])
    else:
        res = '(inr %s)' % coq_rv(obs['result'][1])
    ctx = c_list([c_pair(c_str(k), c_val(v)) for k, v in obs['ctx']])
    return '(mk_c09 %s %s %s %s %s %s)' % (
        coq_instr(case['outline']), c_list([c_bool(b) for b in case['preds']]),
        c_list([coq_sret(r) for r in case['rets']]), calls, res, ctx)


# ---------------------------------------------------------------- implementation side
class UserError(Exception):
    pass


_CLASS_CACHE = {}


def build_class(outline):
    import plumpy
    key = json.dumps(outline)
    if key in _CLASS_CACHE:
        return _CLASS_CACHE[key]
    methods = {}
    # every second class is built the way a step factory leaves it: all step functions share one __name__ ('stage'), all predicates
    # another ('check'), and the class has unrelated attributes of exactly those names (never part of the outline)
    factory_style = len(_CLASS_CACHE) % 2 == 1

    def mk_step(name):
        def step(self):
            self._calls.append(['s', name])
            item = self._rets.pop(0) if self._rets else None
            if item is None:
                return None
            for k, v in item['reg']:
                self.to_context(**{k: done_future(self.loop, v)})
            r = item['ret']
            if r[0] == 'none':
                return None
            if r[0] == 'ctx':
                return plumpy.ToContext(**{k: done_future(self.loop, v) for k, v in r[1]})
            if r[0] == 'val':
                return r[1]
            raise UserError(r[1])
        step.__name__ = 'stage' if factory_style else name
        return step

    def mk_pred(name):
        def pred(self):
            self._calls.append(['p', name])
            return self._preds.pop(0) if self._preds else False
        pred.__name__ = 'check' if factory_style else name
        return pred

    def conv(t):
        k = t[0]
        if k == 'step':
            methods.setdefault(t[1], mk_step(t[1]))
            return methods[t[1]]
        if k == 'block':
            return plumpy.workchains._Block([conv(i) for i in t[1]])
        if k == 'if':
            node = None
            for n, (p, body) in enumerate(t[1]):
                instrs = [conv(i) for i in body]
                if p is None:
                    node = node.else_(*instrs)
                    continue
                methods.setdefault(p, mk_pred(p))
                if n == 0:
                    node = plumpy.if_(methods[p])(*instrs)
                else:
                    node = node.elif_(methods[p])(*instrs)
            return node
        if k == 'while':
            methods.setdefault(t[1], mk_pred(t[1]))
            return plumpy.while_(methods[t[1]])(*[conv(i) for i in t[2]])
        if k == 'return':
            return plumpy.return_ if t[1] is None else plumpy.return_(t[1])
        raise ValueError(t)

    top = outline
    if top[0] == 'block':
        cmds = [conv(i) for i in top[1]]
    else:
        cmds = [conv(top)]

    def define(cls, spec):
        super(klass, cls).define(spec)
        spec.outline(*cmds)

    ns = dict(methods)
    if factory_style:
        def stage(self):
            self._calls.append(['s', 'NOT-IN-THE-OUTLINE'])

        def check(self):
            self._calls.append(['p', 'NOT-IN-THE-OUTLINE'])
            return True
        ns['stage'], ns['check'] = stage, check
    ns['define'] = classmethod(define)
    klass = type('WC_%d' % len(_CLASS_CACHE), (plumpy.WorkChain,), ns)
    _CLASS_CACHE[key] = klass
    return klass


def done_future(loop, v):
    f = loop.create_future()
    f.set_result(v)
    return f


def canon_rv(v):
    if v is None:
        return ['none']
    if isinstance(v, dict):
        return ['ctx', [[k, f.result()] for k, f in v.items()]]
    return ['val', v]


def run_impl(case):
    warnings.simplefilter('ignore')
    loop = asyncio.new_event_loop()
    asyncio.set_event_loop(loop)
    try:
        try:
            klass = build_class(case['outline'])
            wc = klass(loop=loop)
        except Exception as e:  # constructor raised (e.g. empty outline)
            return {'calls': [], 'result': ['exn', coqio.canon_exception(e)], 'ctx': [], 'state': 'none'}
        wc._calls = []
        wc._preds = list(case['preds'])
        wc._rets = [dict(r) for r in case['rets']]
        try:
            wc.execute()
        except Exception:
            pass
        state = wc.state.value
        if state == 'finished':
            result = ['ok', canon_rv(wc.result())]
        elif state == 'excepted':
            result = ['exn', coqio.canon_exception(wc.exception())]
        else:
            result = ['exn', ['other', state]]
        ctx = [[k, v] for k, v in wc.ctx.__dict__.items()]
        return {'calls': wc._calls, 'result': result, 'ctx': ctx, 'state': state}
    finally:
        asyncio.set_event_loop(None)
        loop.close()


# ---------------------------------------------------------------- oracle: the structured program, directly
class _Stop(Exception):
    def __init__(self, result):
        self.result = result


def wf(t):
    k = t[0]
    if k in ('step', 'return'):
        return True
    if k == 'block':
        return len(t[1]) > 0 and all(wf(i) for i in t[1])
    if k == 'if':
        return all(len(b) > 0 and all(wf(i) for i in b) for _, b in t[1])
    if k == 'while':
        return len(t[2]) > 0 and all(wf(i) for i in t[2])


def reference(case):
    preds, rets = list(case['preds']), [dict(r) for r in case['rets']]
    calls, ctx = [], {}

    def pred(p):
        if p is None:
            return True
        calls.append(['p', p])
        return preds.pop(0) if preds else False

    def instr(t, last):
        k = t[0]
        if k == 'step':
            calls.append(['s', t[1]])
            item = rets.pop(0) if rets else {'reg': [], 'ret': ['none']}
            r = item['ret']
            if r[0] == 'raise':
                raise _Stop(['exn', ['user', r[1]]])
            if r[0] == 'val':
                raise _Stop(['ok', r])
            if not last:
                for key, v in item['reg'] + (r[1] if r[0] == 'ctx' else []):
                    ctx[key] = v
            return r
        if k == 'return':
            raise _Stop(['ok', ['none'] if t[1] is None else ['val', t[1]]])
        if k == 'block':
            return block(t[1], last)
        if k == 'if':
            for p, body in t[1]:
                if pred(p):
                    return block(body, last)
            return ['none']
        if k == 'while':
            while pred(t[1]):
                block(t[2], False)
            return ['none']

    def block(b, last):
        r = ['none']
        for n, i in enumerate(b):
            r = instr(i, last and n == len(b) - 1)
        return r

    try:
        res = ['ok', instr(case['outline'], True)]
    except _Stop as s:
        res = s.result
    return {'calls': calls, 'result': res, 'ctx': [[k, v] for k, v in ctx.items()]}


def oracle(case, obs):
    if not wf(case['outline']):
        return None            # empty bodies are outside the property (Python's own rule for a suite)
    ref = reference(case)
    for key in ('calls', 'result', 'ctx'):
        if ref[key] != obs[key]:
            return {'signature': 'outline_semantics', 'kind': key, 'expected': ref[key], 'observed': obs[key]}
    return None


def nontrivial(case, obs):
    return any(k == 'p' for k, _ in obs['calls']) or obs['result'] != ['ok', ['none']]


def distribution(cases, obs):
    d = {'wellformed': 0, 'malformed': 0, 'finished': 0, 'excepted': 0, 'calls_total': 0, 'with_while': 0,
         'with_if': 0, 'with_return': 0, 'max_calls': 0}
    for c, o in zip(cases, obs):
        d['wellformed' if wf(c['outline']) else 'malformed'] += 1
        d['finished' if o['result'][0] == 'ok' else 'excepted'] += 1
        d['calls_total'] += len(o['calls'])
        d['max_calls'] = max(d['max_calls'], len(o['calls']))
        s = json.dumps(c['outline'])
        d['with_while'] += '"while"' in s
        d['with_if'] += '"if"' in s
        d['with_return'] += '"return"' in s
    return d


# ---------------------------------------------------------------- generators
class Namer:
    def __init__(self):
        self.s = 0
        self.p = 0

    def step(self):
        self.s += 1
        return ['step', 's%d' % self.s]

    def pred(self):
        self.p += 1
        return 'p%d' % self.p


def shapes(size, depth, nm_factory=None):
    """All outline *shapes* (instruction lists) with exactly `size` instruction nodes, nesting <= depth."""
    # returns list of blocks (lists of shape instrs) using placeholders 'S' for step names and 'P' for predicates
    memo = {}

    def blocks(n, d):
        key = (n, d)
        if key in memo:
            return memo[key]
        out = []
        if n == 0:
            out = [[]]
        else:
            for first_size in range(1, n + 1):
                for first in instrs(first_size, d):
                    for rest in blocks(n - first_size, d):
                        out.append([first] + rest)
        memo[key] = out
        return out

    def instrs(n, d):
        out = []
        if n == 1:
            out.append(['step', 'S'])
            out.append(['return', None])
            out.append(['return', 7])
        if d > 0 and n >= 2:
            # while P: body of n-1
            for body in blocks(n - 1, d - 1):
                if body:
                    out.append(['while', 'P', body])
            # if with 1 branch, if/else, if/elif
            for body in blocks(n - 1, d - 1):
                if body:
                    out.append(['if', [['P', body]]])
            for a in range(1, n - 1):
                for b1 in blocks(a, d - 1):
                    for b2 in blocks(n - 1 - a, d - 1):
                        if b1 and b2:
                            out.append(['if', [['P', b1], [None, b2]]])
                            out.append(['if', [['P', b1], ['P', b2]]])
        return out

    return blocks(size, depth)


def name_outline(t, nm):
    k = t[0]
    if k == 'step':
        return nm.step()
    if k == 'return':
        return list(t)
    if k == 'block':
        return ['block', [name_outline(i, nm) for i in t[1]]]
    if k == 'while':
        p = nm.pred()
        return ['while', p, [name_outline(i, nm) for i in t[2]]]
    if k == 'if':
        brs = []
        for p, body in t[1]:
            pn = None if p is None else nm.pred()
            brs.append([pn, [name_outline(i, nm) for i in body]])
        return ['if', brs]


def count(t, kind):
    return json.dumps(t).count('"%s"' % kind)


RET_KINDS = [
    {'reg': [], 'ret': ['none']},
    {'reg': [], 'ret': ['ctx', [['a', 1]]]},
    {'reg': [['b', 2]], 'ret': ['none']},
    {'reg': [], 'ret': ['val', 5]},
    {'reg': [], 'ret': ['raise', 'boom']},
    {'reg': [['a', 3]], 'ret': ['ctx', [['a', 4], ['c', 'x']]]},
    {'reg': [], 'ret': ['ctx', []]},
    {'reg': [], 'ret': ['val', 0]},
    {'reg': [], 'ret': ['val', 'text']},
]


def rand_outline(rng, depth, nm):
    def block(d, maxlen=3):
        return [instr(d) for _ in range(rng.randint(1, maxlen))]

    def instr(d):
        r = rng.random()
        if d == 0 or r < 0.45:
            return nm.step()
        if r < 0.52:
            return ['return', rng.choice([None, 0, 3, -1])]
        if r < 0.75:
            return ['while', nm.pred(), block(d - 1)]
        nbr = rng.randint(1, 3)
        brs = [[nm.pred(), block(d - 1, 2)] for _ in range(nbr)]
        if rng.random() < 0.4:
            brs.append([None, block(d - 1, 2)])
        return ['if', brs]

    return norm(['block', block(depth, 4)])


def norm(o):
    """spec.outline(x) with a single command stores x itself, not a one-element block."""
    if o[0] == 'block' and len(o[1]) == 1:
        return o[1][0]
    return o


def generate(tier, rng, around=None):
    cases = []
    if tier == 'widen':
        for c in (around or []):
            cases.append(c)
        n_rand, sizes, exhaustive = 1500, [], False
    elif tier == 'thorough':
        n_rand, sizes, exhaustive = 6000, [1, 2, 3, 4, 5], True
    else:
        n_rand, sizes, exhaustive = 800, [1, 2, 3, 4], True
    # bounded-exhaustive: every shape with <= N instruction nodes x every predicate stream of the length the
    # shape can consume (bounded) x a few step-return scripts
    for size in sizes:
        for shape in shapes(size, 3):
            for top in [norm(['block', shape])]:
                o = name_outline(top, Namer())
                npred = count(o, 'while') + count(o, 'if') + json.dumps(o).count('["p')
                nwhile = count(o, 'while')
                plen = min(4, (npred + nwhile) if npred else 0)
                for preds in itertools.product([True, False], repeat=plen):
                    rets_choices = [[], [RET_KINDS[1], RET_KINDS[2]], [RET_KINDS[0], RET_KINDS[3]],
                                    [RET_KINDS[5]], [RET_KINDS[0], RET_KINDS[0], RET_KINDS[4]]]
                    if size <= 3:
                        for rets in rets_choices:
                            cases.append({'outline': o, 'preds': list(preds), 'rets': rets})
                    else:
                        cases.append({'outline': o, 'preds': list(preds), 'rets': rets_choices[rng.randrange(5)]})
    # random, larger
    for _ in range(n_rand):
        nm = Namer()
        o = rand_outline(rng, rng.randint(1, 4), nm)
        preds = [rng.random() < 0.6 for _ in range(rng.randint(0, 10))]
        rets = []
        for _ in range(rng.randint(0, 8)):
            rets.append(rng.choice(RET_KINDS) if rng.random() < 0.5 else RET_KINDS[0])
        cases.append({'outline': o, 'preds': preds, 'rets': rets})
    # malformed stream (empty bodies)
    if tier != 'widen':
        for o in (['block', []], ['if', [['p1', []]]], ['block', [['step', 's1'], ['if', [['p1', []], [None, [['step', 's2']]]]]]],
                  ['while', 'p1', []], ['block', [['while', 'p1', []], ['step', 's1']]],
                  ['block', [['step', 's1'], ['block', []]]]):
            for preds in ([], [True], [False], [True, True]):
                cases.append({'outline': o, 'preds': preds, 'rets': []})
    return {'cases': cases, 'exhaustive': exhaustive,
            'scope': 'all outline shapes with <= %d instruction nodes (depth <= 3) x all predicate streams (<= 4)' % (max(sizes) if sizes else 0)}


def shrink_candidates(case):
    o = case['outline']
    # drop stream items
    for i in range(len(case['rets'])):
        yield dict(case, rets=case['rets'][:i] + case['rets'][i + 1:])
    for i in range(len(case['preds'])):
        yield dict(case, preds=case['preds'][:i] + case['preds'][i + 1:])
    # drop instructions from blocks

    def variants(t):
        k = t[0]
        if k == 'block':
            for i in range(len(t[1])):
                if len(t[1]) > 1:
                    yield ['block', t[1][:i] + t[1][i + 1:]]
                for v in variants(t[1][i]):
                    yield ['block', t[1][:i] + [v] + t[1][i + 1:]]
        elif k == 'while':
            for b in variants(['block', t[2]]):
                yield ['while', t[1], b[1]]
            yield ['block', t[2]]
        elif k == 'if':
            for n, (p, body) in enumerate(t[1]):
                if len(t[1]) > 1:
                    yield ['if', t[1][:n] + t[1][n + 1:]]
                for b in variants(['block', body]):
                    yield ['if', t[1][:n] + [[p, b[1]]] + t[1][n + 1:]]
    for v in variants(o):
        if '[[null' in json.dumps(v).replace(' ', ''):
            continue                     # an else_ cannot be the first branch
        yield dict(case, outline=norm(v))
