"""C01 — state changes follow the life-cycle graph; terminal states are final."""
import itertools
import json

import life
from life import CORR_MODULE, CASE_TYPE, MODEL_FN, CORR_FILE, to_coq, distribution

PROP = 'C01'
SHARD = 200
RULE = ('base program x placement of <= 2 events from {pause, play, kill, resume, fail, late ok/raising callback, cancel future} at every callback '
        'boundary (incl. after termination); real process under the controlled scheduler; non-trivial = at least one control request was accepted '
        'while the process was live or arrived after termination; distinct = distinct (program, schedule)')
ASSUMPTIONS = ['life-cycle hooks and listeners do not raise (C03 covers faults)']

GRAPH = {
    None: {'created'},
    'created': {'running', 'killed', 'excepted'},
    'running': {'running', 'waiting', 'finished', 'killed', 'excepted'},
    'waiting': {'running', 'waiting', 'finished', 'killed', 'excepted'},
    'finished': set(), 'excepted': set(), 'killed': set(),
}


def run_impl(case):
    return life.strip_obs(life.run_case(case))


def oracle(case, obs):
    if obs['final'] is None:
        return None
    cur = None
    for i, e in enumerate(obs['trace']):
        if e[0] == 'entered':
            if e[1] != cur:
                return {'signature': 'entered_from_mismatch', 'kind': 'trace', 'at': i}
            if e[2] not in GRAPH[cur]:
                sig = 'terminal_state_left' if cur in life.TERMINAL else 'illegal_transition'
                return {'signature': sig, 'kind': '%s->%s' % (cur, e[2]), 'at': i, 'how': trigger(obs['trace'], i)}
            cur = e[2]
    # finality as sampled after every event / callback
    term = None
    for s in obs['samples'] + [obs['final']]:
        if term is not None and s['state'] != term:
            return {'signature': 'terminal_state_left', 'kind': '%s->%s' % (term, s['state']), 'how': 'sampled'}
        if s['state'] in life.TERMINAL:
            term = s['state']
    return None


def trigger(trace, i):
    """what request led to the offending transition (for the finding signature)"""
    for e in trace[i:]:
        if e[0] == 'ctl':
            return e[1][0]
        if e[0] in ('callback',):
            return 'callback'
    for e in reversed(trace[:i]):
        if e[0] in ('callback',):
            return 'callback'
    return 'unknown'


def nontrivial(case, obs):
    return any(e[0] == 'ctl' and e[2][0] in ('action', 'none') or (e[0] == 'ctl' and e[2] == ['bool', True]) for e in obs['trace']) \
        or any(e[0] in ('late', 'cancel') for e in case['events'])


EVENTS = [['ctl', c] for c in life.CTLS] + [['late', 0], ['late', 1], ['cancel']]
CALLBACKS = [['ok'], ['raise', 'cb']]


def generate(tier, rng, around=None):
    cases = []
    if tier == 'widen':
        cases += list(around or [])
    progs = life.base_programs()
    names = list(progs) if tier != 'quick' else ['sync3', 'async', 'wait', 'output', 'raise', 'unsucc', 'killcmd', 'ext', 'callsoon']
    for name in names:
        prog = progs[name]
        extra = {'callbacks': CALLBACKS}
        n = life.count_ticks(prog, extra) + 1
        bounds = range(n + 1)
        exts = [['ext', 0, ['val', 1]], ['ext', 1, ['val', 2]]] if name == 'ext' else []
        singles = [(b, e) for b in bounds for e in EVENTS + exts]
        for b, e in singles:
            cases.append(dict(extra, prog=prog, events=life.place(n, [(b, e)]) + [['drain', 30]], _prog=name))
        pairs = list(itertools.combinations(range(len(singles)), 2))
        k = {'quick': 350, 'thorough': 4000, 'widen': 1500}[tier]
        for i, j in (pairs if len(pairs) <= k else rng.sample(pairs, k)):
            cases.append(dict(extra, prog=prog, events=life.place(n, [singles[i], singles[j]]) + [['drain', 30]], _prog=name))
    return {'cases': cases, 'exhaustive': True,
            'scope': '%d programs x every single event (11 kinds) at every callback boundary; pairs sampled' % len(names)}


def shrink_candidates(case):
    ev = case['events']
    for i in range(len(ev)):
        if ev[i][0] != 'drain':
            yield dict(case, events=ev[:i] + ev[i + 1:])
