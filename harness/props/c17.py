"""C17 — launcher tasks do what they say or are rejected.

A case is a launcher configuration (persister kind, the persister's own loader, launcher loader, load-context loader)
and a history of items: tasks built with the real create_*_body functions, raw (malformed) task bodies, and environment
operations on the persister (a process that was checkpointed after k steps by somebody else; deletions).  The real
plumpy.ProcessLauncher is called directly (its __call__ is a coroutine, driven with loop.run_until_complete); after
the reply the loop is run until idle so that background (nowait) processes finish before the next item.
"""
import asyncio
import itertools
import logging
import os
import shutil
import tempfile
import uuid
import warnings

import coqio
from coqio import c_str, c_bool, c_list, c_opt, c_pair, c_val, c_exn, c_nat

PROP = 'C17'
CORR_MODULE = 'Persister Launcher Corr_C17'
CASE_TYPE = 'C17_case'
MODEL_FN = 'c17_model'
SHARD = 120
RULE = ('a launcher configuration (no persister / InMemoryPersister with or without its own loader / PicklePersister; launcher loader; '
        'load-context loader) x a history of <= 6 items: launch / create / continue tasks built by the real create_*_body functions with all '
        'persist / nowait / tag flags, positional or keyword constructor arguments, explicit or process-chosen pids; malformed bodies; '
        'checkpoints written mid-run by another worker; deletions.  non-trivial = the history contains a task that was honoured AND '
        '(a rejected/failed task, or a continue from a checkpoint, or a custom loader that resolved a class); distinct = distinct (config, history)')
ASSUMPTIONS = ['pids are strings or chosen by the process (uuid4, canonicalised to #, #i, #ii ... in creation order); tags are strings or None',
               'a missing checkpoint is NotFound whether it surfaces as KeyError (memory) or FileNotFoundError (pickle), as in C14',
               'tasks are sequential: the loop is run until idle after every reply (a nowait process finishes before the next task)',
               'init_args is None or a list/tuple, init_kwargs None or a dict; only the constructor parameters inputs and pid are given values',
               'the global object loader (loaders.get_object_loader()) is the DefaultObjectLoader',
               'process behaviour (constructor validation, steps executed from a checkpoint, final outcome) is an abstract function of '
               '(class, inputs, checkpoint) in the theorems; the correspondence instantiates it with the three classes of harness/c17_procs.py']
TRUSTED_EXTRA = ['the persister is the abstract (pid, tag) -> snapshot map of Persist/Persister.v (both real persisters refine it: C14)',
                 'harness/c17_procs.py: the three test classes and two table loaders; their Coq counterparts are in Corr/Corr_C17.v']

MOD = 'c17_procs'
CLS = ['Add', 'Steps', 'Other']
LOADERS = [None, 'Nick', 'Swap']


# ------------------------------------------------------------------ canonical forms
class Canon:
    """uuid pids -> '#', '#i', '#ii' ... in order of creation"""

    def __init__(self):
        self.map = {}

    def note(self, pid):
        if isinstance(pid, uuid.UUID) and pid not in self.map:
            self.map[pid] = '#' + 'i' * len(self.map)

    def pid(self, pid):
        if isinstance(pid, uuid.UUID):
            return self.map.get(pid, '?' + str(pid))
        return pid

    def real(self, s):
        for u, c in self.map.items():
            if c == s:
                return u
        return s


def jval(v, cn):
    """python value -> JSON-able value printable by coqio.c_val"""
    if isinstance(v, uuid.UUID):
        return cn.pid(v)
    if isinstance(v, tuple):
        return {'__tuple__': [jval(x, cn) for x in v]}
    if isinstance(v, list):
        return [jval(x, cn) for x in v]
    if isinstance(v, dict) or hasattr(v, 'items'):
        return {k: jval(x, cn) for k, x in v.items()}
    return v


def sorted_dict(d, cn):
    return {k: jval(d[k], cn) for k in sorted(d)}


def snap_canon(b, cn):
    meta = b['!!meta']
    state = b['_state']['!!meta']['class_name'].split(':')[-1].lower()
    acc = list((b.get('_context') or {}).get('acc') or [])
    return {'cls': meta['class_name'], 'ldr': meta.get('user', {}).get('object_loader'), 'pid': cn.pid(b['_pid']),
            'inputs': sorted_dict(dict(b.get('INPUTS_PARSED') or {}), cn), 'state': state, 'acc': acc,
            'outputs': sorted_dict(dict(b.get('OUTPUTS') or {}), cn)}


def store_canon(pers, cn):
    if pers is None:
        return []
    out = []
    for c in pers.get_checkpoints():
        out.append([cn.pid(c.pid), c.tag, snap_canon(pers.load_checkpoint(c.pid, c.tag), cn)])
    return sorted(out, key=repr)


def events_canon(evs, cn):
    out = []
    for e in evs:
        if e[0] == 'init':
            cn.note(e[2])
            out.append(['init', MOD + ':' + e[1], cn.pid(e[2])])
        else:
            out.append(['step', cn.pid(e[1]), e[2]])
    return out


# ------------------------------------------------------------------ running the implementation
_L = []


def loop():
    if not _L:
        _L.append(asyncio.new_event_loop())
    asyncio.set_event_loop(_L[0])
    return _L[0]


def mk_loader(name):
    import c17_procs as P
    return P.LOADERS[name]() if name else None


# A flag given as None (for the tag: OMIT) is left out of the call to create_*_body: the documented default applies.
OMIT = '__omit__'
DEFAULTS = {'launch': {'persist': False, 'nowait': True}, 'create': {'persist': False}, 'continue': {'tag': None, 'nowait': False}}


def given(**kw):
    out = {}
    for k, v in kw.items():
        if k == 'tag':
            if v != OMIT:
                out[k] = v
        elif v is not None:
            out[k] = v
    return out


def norm(it):
    """the item with omitted flags replaced by the documented defaults of the create_*_body functions"""
    it = list(it)
    if it[0] == 'launch':
        it[6] = DEFAULTS['launch']['persist'] if it[6] is None else it[6]
        it[7] = DEFAULTS['launch']['nowait'] if it[7] is None else it[7]
    elif it[0] == 'create':
        it[6] = DEFAULTS['create']['persist'] if it[6] is None else it[6]
    elif it[0] == 'continue':
        it[2] = DEFAULTS['continue']['tag'] if it[2] == OMIT else it[2]
        it[3] = DEFAULTS['continue']['nowait'] if it[3] is None else it[3]
    return it


def init_args_of(mode, inputs, pid):
    """(init_args, init_kwargs) as given to create_*_body"""
    if mode == 'kw':
        kw = {}
        if inputs is not None:
            kw['inputs'] = inputs
        if pid is not None:
            kw['pid'] = pid
        return None, kw
    if mode == 'pos':
        return [inputs, pid], None
    if mode == 'tuple':
        return (inputs, pid), {}
    if mode == 'mixed':
        return [inputs], {'pid': pid}
    if mode == 'none':
        return None, None
    if mode == 'dup':
        return [inputs, pid], {'pid': pid}
    if mode == 'badkw':
        return [inputs], {'pid': pid, 'bogus': 1}
    if mode == 'toomany':
        return [inputs, pid, None, None, None, None], None
    raise ValueError(mode)


_UNSAVABLE = {}


def unsavable_probe(kind):
    """Implementation-only probe (no model term), once per persister kind: launch / create with persist=True of a process whose
    checkpoint cannot be written must be refused with that error — nothing runs, nothing is stored."""
    if kind in _UNSAVABLE or kind == 'none':
        return _UNSAVABLE.get(kind)
    import plumpy
    from plumpy import process_comms as pc
    import c17_procs as P
    lp = loop()
    d = None
    out = []
    try:
        if kind == 'mem':
            pers = plumpy.InMemoryPersister()
        else:
            os.makedirs(coqio.BUILD, exist_ok=True)
            d = tempfile.mkdtemp(prefix='c17u_', dir=coqio.BUILD)
            pers = plumpy.PicklePersister(d)
        launcher = plumpy.ProcessLauncher(loop=lp, persister=pers)
        bodies = [('launch', pc.create_launch_body(P.Unsavable, persist=True, nowait=False)),
                  ('launch-nowait', pc.create_launch_body(P.Unsavable, persist=True, nowait=True)),
                  ('create', pc.create_create_body(P.Unsavable, persist=True))]
        for name, body in bodies:
            P.EVENTS.clear()

            async def call():
                try:
                    return ['ok', repr(await launcher(None, body))[:60]]
                except BaseException as e:  # noqa: BLE001
                    return ['exn', coqio.canon_exception(e)]
            reply = lp.run_until_complete(call())
            for _ in range(50):
                lp.run_until_complete(asyncio.sleep(0))
            out.append([name, reply, sum(1 for e in P.EVENTS if e[0] == 'step'), len(pers.get_checkpoints())])
    except Exception as e:  # noqa: BLE001
        out.append(['probe-error', repr(e)[:200], 0, 0])
    finally:
        if d:
            shutil.rmtree(d, ignore_errors=True)
    _UNSAVABLE[kind] = out
    return out


def run_impl(case):
    obs = _run_impl(case)
    obs['unsavable'] = unsavable_probe(case['persister'])
    return obs


def _run_impl(case):
    warnings.simplefilter('ignore')
    logging.disable(logging.CRITICAL)
    import plumpy
    from plumpy import process_comms as pc
    import c17_procs as P
    lp = loop()
    cn = Canon()
    d = None
    try:
        if case['persister'] == 'none':
            pers = None
        elif case['persister'] == 'mem':
            pers = plumpy.InMemoryPersister(loader=mk_loader(case.get('psave')))
        else:
            os.makedirs(coqio.BUILD, exist_ok=True)
            d = tempfile.mkdtemp(prefix='c17_', dir=coqio.BUILD)
            pers = plumpy.PicklePersister(d)
        lc = plumpy.LoadSaveContext(loader=mk_loader(case.get('lcloader'))) if case.get('lcloader') else None
        launcher = plumpy.ProcessLauncher(loop=lp, persister=pers, load_context=lc, loader=mk_loader(case.get('loader')))
        out = {'items': [], 'bodies': [], 'envsnaps': []}
        for it in case['hist']:
            kind = it[0]
            body = None
            snap = None
            P.EVENTS.clear()
            if kind in ('presave', 'delete', 'delete_pid'):
                reply = ['none']
                if pers is not None:
                    if kind == 'presave':
                        _, cls, inputs, pid, k, tag = it
                        proc = P.CLASSES[cls](inputs=inputs, pid=pid, loop=lp)
                        for _ in range(k):
                            if not proc.has_terminated():
                                lp.run_until_complete(proc.step())
                        pers.save_checkpoint(proc, tag)
                        snap = snap_canon(pers.load_checkpoint(pid, tag), cn)
                    elif kind == 'delete':
                        pers.delete_checkpoint(cn.real(it[1]), it[2])
                    else:
                        pers.delete_process_checkpoints(cn.real(it[1]))
                P.EVENTS.clear()      # the other worker's process is not the launcher's business
                before, after = [], []
            else:
                if kind == 'launch':
                    _, cls, sender, mode, inputs, pid, persist, nowait = it
                    a, k = init_args_of(mode, inputs, pid)
                    body = pc.create_launch_body(P.CLASSES[cls], init_args=a, init_kwargs=k, loader=mk_loader(sender),
                                                 **given(persist=persist, nowait=nowait))
                elif kind == 'create':
                    _, cls, sender, mode, inputs, pid, persist = it
                    a, k = init_args_of(mode, inputs, pid)
                    body = pc.create_create_body(P.CLASSES[cls], init_args=a, init_kwargs=k, loader=mk_loader(sender), **given(persist=persist))
                elif kind == 'continue':
                    body = pc.create_continue_body(cn.real(it[1]), **given(tag=it[2], nowait=it[3]))
                elif kind == 'raw':
                    body = it[1]
                    if isinstance(body, dict) and isinstance(body.get('args'), dict) and 'pid' in body['args']:
                        body = dict(body, args=dict(body['args'], pid=cn.real(body['args']['pid'])))
                else:
                    raise ValueError(kind)
                async def call():
                    # the events are sampled at the very moment the launcher's coroutine delivers its reply
                    try:
                        r = await launcher(None, body)
                        return r, None, list(P.EVENTS)
                    except BaseException as e:  # noqa: BLE001  (KilledError is what the property talks about)
                        return None, e, list(P.EVENTS)
                r, exc, evs = lp.run_until_complete(call())
                if isinstance(exc, (KeyError, FileNotFoundError)):
                    reply = ['exn', ['py', 'KeyError']]
                elif exc is not None:
                    reply = ['exn', coqio.canon_exception(exc)]
                elif isinstance(r, dict) or hasattr(r, 'items'):
                    reply = ['val', None, dict(r)]
                elif isinstance(r, (str, uuid.UUID)):
                    reply = ['pid', r]
                else:
                    reply = ['odd', repr(r)[:40]]        # neither a pid nor outputs
                before = events_canon(evs, cn)
                n0 = len(evs)
                for _ in range(200):
                    lp.run_until_complete(asyncio.sleep(0))
                    if not [t for t in asyncio.all_tasks(lp) if not t.done()]:
                        break
                after = events_canon(list(P.EVENTS)[n0:], cn)
                if reply[0] == 'pid':
                    reply = ['pid', cn.pid(reply[1])]
                elif reply[0] == 'val':
                    reply = ['val', sorted_dict(reply[2], cn)]
            out['items'].append({'reply': reply, 'before': before, 'after': after, 'store': store_canon(pers, cn)})
            out['bodies'].append(jval(body, cn) if body is not None else None)
            out['envsnaps'].append(snap)
        return out
    finally:
        pass  # logging stays disabled: destructors of abandoned futures would log at interpreter exit
        if d:
            shutil.rmtree(d, ignore_errors=True)


# ------------------------------------------------------------------ Gallina printers
def c_tag(t):
    return c_opt(t, c_str)


def c_snap(s):
    return '(VTup %s)' % c_list([c_val(s['cls']), c_val(s['ldr']), c_val(s['pid']), c_val(s['inputs']),
                                  '(VTup %s)' % c_list([c_val(s['state']), c_val(list(s['acc'])), c_val(s['outputs'])])])


def c_table(name):
    import c17_procs as P
    if not name:
        return '[]'
    return c_list([c_pair(c_str(k), c_str(MOD + ':' + v)) for k, v in P.LOADERS[name].TABLE.items()])


def c_otable(name):
    return '(Some %s)' % c_table(name) if name else 'None'


def loader_class_name(name):
    import c17_procs as P
    return MOD + ':' + P.LOADERS[name].__name__


def c_cfg(case):
    if case['persister'] == 'none':
        p = 'None'
    elif case['persister'] == 'mem' and case.get('psave'):
        p = '(Some (Some (%s, %s)))' % (c_str(loader_class_name(case['psave'])), c_table(case['psave']))
    else:
        p = '(Some None)'
    return '(mk_cfg %s %s %s)' % (p, c_otable(case.get('loader')), c_otable(case.get('lcloader')))


def c_event(e):
    if e[0] == 'init':
        return '(EvInit %s %s)' % (c_str(e[1]), c_str(e[2]))
    return '(EvStep %s %s)' % (c_str(e[1]), c_nat(e[2]))


def c_reply(r):
    if r[0] == 'pid':
        return '(PPid %s)' % c_str(r[1])
    if r[0] == 'val':
        return '(PVal %s)' % c_val(r[1])
    if r[0] == 'odd':
        return '(PVal (VStr %s))' % c_str('odd:' + ''.join(ch for ch in r[1] if 32 <= ord(ch) < 127))
    if r[0] == 'exn':
        if r[1][0] == 'other':
            return '(PExn (EUser %s))' % c_str('other:' + r[1][1])
        return '(PExn %s)' % c_exn(r[1])
    return 'PNone'


def c_body(b):
    if not isinstance(b, dict):
        raise ValueError('a task body must be a dict: %r' % (b,))
    return c_list([c_pair(c_str(k), c_val(v)) for k, v in b.items()])


def to_coq(case, obs):
    hist, built, items = [], [], []
    for it, o, body, snap in zip(case['hist'], obs['items'], obs['bodies'], obs['envsnaps']):
        it = norm(it)
        kind = it[0]
        if kind == 'presave':
            if snap is None:        # no persister: nothing happened
                hist.append('(HEnv ListAll)')
            else:
                hist.append('(HEnv (Save %s %s %s))' % (c_str(it[3]), c_tag(it[5]), c_snap(snap)))
            built.append('BRaw')
        elif kind == 'delete':
            hist.append('(HEnv (Delete %s %s))' % (c_str(it[1]), c_tag(it[2])))
            built.append('BRaw')
        elif kind == 'delete_pid':
            hist.append('(HEnv (DeletePid %s))' % c_str(it[1]))
            built.append('BRaw')
        else:
            hist.append('(HTask %s)' % c_body(body))
            if kind == 'launch':
                _, cls, sender, mode, inputs, pid, persist, nowait = it
                a, k = init_args_of(mode, inputs, pid)
                built.append('(BLaunch %s %s %s %s %s %s)' % (c_table(sender), c_str(MOD + ':' + cls), c_val(jval(a, None)), c_val(jval(k, None)),
                                                             c_bool(persist), c_bool(nowait)))
            elif kind == 'create':
                _, cls, sender, mode, inputs, pid, persist = it
                a, k = init_args_of(mode, inputs, pid)
                built.append('(BCreate %s %s %s %s %s)' % (c_table(sender), c_str(MOD + ':' + cls), c_val(jval(a, None)), c_val(jval(k, None)), c_bool(persist)))
            elif kind == 'continue':
                built.append('(BContinue %s %s %s)' % (c_str(it[1]), c_tag(it[2]), c_bool(it[3])))
            else:
                built.append('BRaw')
        store = c_list([c_pair(c_pair(c_str(e[0]), c_tag(e[1])), c_snap(e[2])) for e in o['store']])
        items.append('(mk_obs %s %s %s %s)' % (c_reply(o['reply']), c_list([c_event(e) for e in o['before']]),
                                               c_list([c_event(e) for e in o['after']]), store))
    lcs = c_list([c_pair(c_str(loader_class_name(n)), c_table(n)) for n in ('Nick', 'Swap')])
    return '(mk_c17 %s %s %s %s %s)' % (c_cfg(case), lcs, c_list(hist), c_list(built), c_list(items))


# ------------------------------------------------------------------ the property, checked on the implementation
def _expected_loader_tables():
    import c17_procs as P
    return {None: {}, 'Nick': P.NickLoader.TABLE, 'Swap': P.SwapLoader.TABLE}


def resolve(table, ident):
    """what a (table) loader must resolve an identifier to: class name or None"""
    if ident in table:
        return table[ident]
    if ident.startswith(MOD + ':') and ident[len(MOD) + 1:] in CLS:
        return ident[len(MOD) + 1:]
    return None


def ref_run(cls, inputs, state, acc, outputs=None):
    """reference semantics of the three test classes from a checkpoint: (steps, outcome)"""
    if state == 'finished':
        return [], ['val', outputs]
    if cls == 'Add':
        return [0], ['val', {'sum': inputs['a'] + inputs['b']}]
    n = inputs['n'] + (100 if cls == 'Other' else 0)
    acc = list(acc)
    if state == 'excepted':
        return [], ['exn', ['user', 'f%d' % inputs['fail']]]
    if state == 'killed':
        return [], ['exn', ['killed', 'k%d' % inputs['kill']]]
    steps = []
    for k in range(len(acc), 3):
        steps.append(k)
        acc.append(k)
        if inputs['fail'] == k:
            return steps, ['exn', ['user', 'f%d' % k]]
        if inputs['kill'] == k:
            return steps, ['exn', ['killed', 'k%d' % k]]
    if inputs['fail'] == 3:
        return steps, ['exn', ['user', 'f3']]
    return steps, ['val', {'acc': acc, 'n': n}]


def ref_parse(cls, inputs):
    inputs = dict(inputs or {})
    spec = {'Add': {'a': None, 'b': 1}}.get(cls, {'n': 0, 'fail': -1, 'kill': -1})
    if any(k not in spec for k in inputs) or any(not isinstance(v, int) or isinstance(v, bool) for v in inputs.values()):
        return None
    out = dict(spec, **inputs)
    if any(v is None for v in out.values()):
        return None
    return {k: out[k] for k in sorted(out)}


def fail(sig, n, item, **kw):
    return dict({'signature': sig, 'kind': item[0], 'item': n, 'task': item}, **kw)


def oracle(case, obs):
    """The statement of C17 on the observed behaviour, independently of the Coq model."""
    for name, reply, steps, stored in (obs.get('unsavable') or []):
        if name == 'probe-error':
            return {'signature': 'unsavable_probe_failed', 'kind': str(reply)}
        if reply[0] != 'exn' or steps != 0 or stored != 0:
            return {'signature': 'unpersistable_process_not_refused', 'kind': name, 'reply': reply, 'steps_run': steps, 'stored': stored}
    tables = _expected_loader_tables()
    has_p = case['persister'] != 'none'
    ltab = tables[case.get('loader')]
    store = {}          # what the persister must contain
    fresh = 0
    for n, (it, o) in enumerate(zip(case['hist'], obs['items'])):
        it = norm(it)
        kind = it[0]
        prev = dict(store)
        reply, before, after = o['reply'], o['before'], o['after']
        got_store = {(e[0], e[1]): e[2] for e in o['store']}
        if len(got_store) != len(o['store']):
            return fail('duplicate_checkpoint_keys', n, it)
        rejected = reply == ['exn', ['py', 'TaskRejected']]
        errored = (reply[0] == 'exn' and reply[1][0] == 'py' and not before and not after)      # raised by the launcher, not by a process
        if kind in ('presave', 'delete', 'delete_pid'):
            if has_p:
                if kind == 'presave':
                    store[(it[3], it[5])] = obs['envsnaps'][n]
                elif kind == 'delete':
                    store.pop((it[1], it[2]), None)
                else:
                    for k in [k for k in store if k[0] == it[1]]:
                        del store[k]
            if got_store != store:
                return fail('environment_operation_not_reflected', n, it, expected=repr(store), observed=repr(got_store))
            continue
        # ---- what must happen to this task: 'reject' | an error kind | 'honour' | None (raw body: left to the model)
        expect = None
        if kind in ('launch', 'create'):
            mode, inputs = it[3], it[4]
            # the sending side: create_*_body names the class through the loader it was given
            stab = tables[it[2]]
            want_ident = next((i for i, c in stab.items() if c == it[1]), MOD + ':' + it[1])
            if obs['bodies'][n]['args']['process_class'] != want_ident:
                return fail('body_names_class_with_another_loader', n, it, expected=want_ident, observed=obs['bodies'][n]['args']['process_class'])
            want_cls = resolve(ltab, obs['bodies'][n]['args']['process_class'])
            if it[6] and not has_p:
                expect = 'reject'
            elif want_cls is None:
                expect = 'ValueError'
            elif mode in ('dup', 'badkw', 'toomany'):
                expect = 'TypeError'
            elif ref_parse(want_cls, None if mode == 'none' else inputs) is None:
                expect = 'ValueError'
            else:
                expect = 'honour'
        elif kind == 'continue':
            snap = prev.get((it[1], it[2]))
            if not has_p:
                expect = 'reject'
            elif snap is None:
                expect = 'KeyError'
            else:
                # loader precedence: launcher loader, load-context loader, the one recorded in the checkpoint, default
                if case.get('loader'):
                    tab = tables[case['loader']]
                elif case.get('lcloader'):
                    tab = tables[case['lcloader']]
                elif snap['ldr']:
                    tab = tables[{'NickLoader': 'Nick', 'SwapLoader': 'Swap'}[snap['ldr'].split(':')[1]]]
                else:
                    tab = {}
                cont_cls = resolve(tab, snap['cls'])
                expect = 'honour' if cont_cls is not None else 'ValueError'
        elif kind == 'raw':
            b = it[1]
            if 'task' in b and b['task'] not in ('launch', 'create', 'continue'):
                expect = 'reject'
        if expect == 'reject' and not rejected:
            return fail('not_rejected', n, it, observed=reply)
        if rejected and expect not in ('reject', None):
            return fail('rejected_but_could_be_honoured', n, it)
        if rejected or errored:
            if got_store != prev:
                return fail('failed_task_changed_persister', n, it, observed=repr(got_store), expected=repr(prev))
            if expect == 'honour':
                return fail('honourable_task_failed', n, it, observed=reply)
            if expect not in ('reject', None) and reply != ['exn', ['py', expect]]:
                return fail('wrong_error_kind', n, it, expected=expect, observed=reply)
            continue
        if expect not in ('honour', None):
            return fail('task_that_cannot_be_honoured_was_executed', n, it, expected=expect, observed=reply)
        if kind == 'raw':
            # a raw body that was honoured: its effects are checked by the model only
            store = got_store
            fresh += len([e for e in before if e[0] == 'init' and e[2].startswith('#')])
            continue
        # ---- honoured tasks
        if kind in ('launch', 'create'):
            cls, sender, mode, inputs, pid, persist = it[1], it[2], it[3], it[4], it[5], it[6]
            nowait = it[7] if kind == 'launch' else None
            if mode == 'none':
                inputs, pid = None, None
            parsed = ref_parse(want_cls, inputs)
            if pid is None:
                pid = '#' + 'i' * fresh
                fresh += 1
            ev_init = ['init', MOD + ':' + want_cls, pid]
            steps, outcome = ref_run(want_cls, parsed, 'created', [])
            ev_steps = [['step', pid, k] for k in steps]
            if not before or before[0] != ev_init:
                return fail('wrong_class_or_pid_created', n, it, expected=ev_init, observed=before)
            if kind == 'create':
                if reply != ['pid', pid]:
                    return fail('create_reply_not_pid', n, it, observed=reply)
                if before != [ev_init] or after:
                    return fail('create_ran_the_process', n, it, observed=before + after)
            elif nowait:
                if reply != ['pid', pid]:
                    return fail('nowait_reply_not_pid', n, it, observed=reply)
                if before != [ev_init]:
                    return fail('nowait_reply_not_immediate', n, it, observed=before)
                if after != ev_steps:
                    return fail('launched_process_trace', n, it, expected=ev_steps, observed=after)
            else:
                if reply != outcome:
                    return fail('launch_reply_not_process_outcome', n, it, expected=outcome, observed=reply)
                if before != [ev_init] + ev_steps or after:
                    return fail('launched_process_trace', n, it, expected=[ev_init] + ev_steps, observed=before + after)
            if persist:
                got = got_store.get((pid, None))
                if got is None or got['state'] != 'created' or got['acc'] or got['outputs'] or got['pid'] != pid or got['inputs'] != parsed:
                    return fail('not_persisted_before_running', n, it, observed=got)
                # the class name in the checkpoint is written by the PERSISTER's loader; it must denote the class
                ptab = tables[case.get('psave') if case['persister'] == 'mem' else None]
                if resolve(ptab, got['cls']) != want_cls:
                    return fail('checkpoint_names_another_class', n, it, observed=got)
                store[(pid, None)] = got
            if got_store != store:
                return fail('persisted_iff_asked', n, it, expected=sorted(map(repr, store)), observed=sorted(map(repr, got_store)))
        elif kind == 'continue':
            pid, tag, nowait = it[1], it[2], it[3]
            want_cls = cont_cls
            steps, outcome = ref_run(want_cls, snap['inputs'], snap['state'], snap['acc'], snap['outputs'])
            ev_steps = [['step', snap['pid'], k] for k in steps]
            if nowait:
                if reply != ['pid', snap['pid']]:
                    return fail('nowait_reply_not_pid', n, it, observed=reply)
                if before:
                    return fail('nowait_reply_not_immediate', n, it, observed=before)
                if after != ev_steps:
                    return fail('continue_not_from_checkpoint', n, it, expected=ev_steps, observed=after)
            else:
                if before != ev_steps or after:
                    return fail('continue_not_from_checkpoint', n, it, expected=ev_steps, observed=before + after)
                if reply != outcome:
                    return fail('continue_reply_not_process_outcome', n, it, expected=outcome, observed=reply)
            if got_store != prev:
                return fail('continue_changed_persister', n, it)
    return None


# ------------------------------------------------------------------ evidence helpers
def nontrivial(case, obs):
    honoured = failed = cont = custom = False
    for it, o in zip(case['hist'], obs['items']):
        if it[0] in ('presave', 'delete', 'delete_pid'):
            continue
        if o['reply'][0] == 'exn' and not o['before'] and not o['after']:
            failed = True
        else:
            honoured = True
            if it[0] == 'continue':
                cont = True
            if case.get('loader') or case.get('lcloader') or case.get('psave'):
                custom = True
    return honoured and (failed or cont or custom)


def distribution(cases, obs):
    d = {}

    def inc(k):
        d[k] = d.get(k, 0) + 1
    for c, ob in zip(cases, obs):
        inc('persister_' + c['persister'])
        if c.get('loader'):
            inc('launcher_loader')
        if c.get('lcloader'):
            inc('load_context_loader')
        if c.get('psave'):
            inc('persister_loader')
        for it, o in zip(c['hist'], ob['items']):
            inc('item_' + it[0])
            r = o['reply']
            if r[0] == 'exn':
                inc('reply_exn_' + str(r[1][-1]))
            else:
                inc('reply_' + r[0])
            if it[0] == 'continue' and r[0] != 'exn' and (o['before'] or o['after']) and len(o['before'] + o['after']) < 3:
                inc('continue_mid_outline')
    d['histories'] = len(cases)
    d['max_len'] = max(len(c['hist']) for c in cases)
    return d


# ------------------------------------------------------------------ generation
INPUTS = {
    'Add': [{'a': 2}, {'a': 1, 'b': 5}, {}, {'a': 'x'}, None, {'a': 1, 'zz': 2}],
    'Steps': [{}, {'n': 5}, {'fail': 1}, {'kill': 2}, {'fail': 0, 'n': 2}, {'kill': 0}, {'n': 'x'}, None, {'fail': 3}, {'fail': 3, 'n': 1}],
}
INPUTS['Other'] = INPUTS['Steps']
PIDS = ['P1', 'P2', None]
TAGS = [None, 't1']
RAW = [
    {'task': 'bogus'}, {'task': 'bogus', 'args': {'pid': 'P1', 'nowait': False}}, {}, {'args': {}}, {'task': None}, {'task': 'Launch'},
    {'task': 'launch'}, {'task': 'launch', 'args': {'process_class': MOD + ':Add', 'persist': False}},
    {'task': 'launch', 'args': None}, {'task': 'create', 'args': []},
    {'task': 'create', 'args': {'process_class': MOD + ':Nope', 'persist': False}},
    {'task': 'create', 'args': {'process_class': 'nope', 'persist': True}},
    {'task': 'create', 'args': {'process_class': MOD + ':Add', 'persist': False, 'bogus': 1}},
    {'task': 'create', 'args': {'process_class': MOD + ':Add', 'persist': False, 'nowait': True}},
    {'task': 'create', 'args': {'process_class': MOD + ':Steps', 'persist': True, 'init_kwargs': {'pid': 'P1'}}},
    {'task': 'launch', 'args': {'process_class': MOD + ':Steps', 'persist': 1, 'nowait': 0, 'init_args': [{'n': 1}, 'P2']}},
    {'task': 'launch', 'args': {'process_class': 'beta', 'persist': False, 'nowait': False}},
    {'task': 'launch', 'args': {'process_class': 'delta', 'persist': True, 'nowait': True, 'init_kwargs': {'pid': 'P1'}}},
    {'task': 'continue', 'args': {'pid': 'P1'}}, {'task': 'continue', 'args': {'pid': 'P1', 'nowait': False}},
    {'task': 'continue', 'args': {'pid': 'P1', 'nowait': True, 'tag': 't1', 'extra': 0}},
    {'task': 'continue', 'args': {'nowait': True}}, {'task': 'continue'},
    {'task': 'continue', 'args': {'pid': 'P2', 'nowait': '', 'tag': None}},
]


def configs(tier):
    out = []
    for p in ('none', 'mem', 'pickle'):
        for ps in (LOADERS if p == 'mem' else [None]):
            for l in LOADERS:
                for lc in LOADERS:
                    out.append({'persister': p, 'psave': ps, 'loader': l, 'lcloader': lc})
    return out


def rand_item(rng, hist_so_far):
    r = rng.random()
    cls = rng.choice(CLS)
    if r < 0.30:
        mode = rng.choice(['kw'] * 5 + ['pos', 'tuple', 'mixed', 'none', 'dup', 'badkw', 'toomany'])
        return ['launch', cls, rng.choice(LOADERS), mode, rng.choice(INPUTS[cls][:4] if rng.random() < 0.8 else INPUTS[cls]), rng.choice(PIDS),
                rng.choice([True, True, True, False, False, None]), rng.choice([True, True, False, False, False, None])]
    if r < 0.50:
        mode = rng.choice(['kw'] * 5 + ['pos', 'tuple', 'mixed', 'none', 'dup', 'badkw', 'toomany'])
        return ['create', cls, rng.choice(LOADERS), mode, rng.choice(INPUTS[cls][:4] if rng.random() < 0.8 else INPUTS[cls]), rng.choice(PIDS),
                rng.choice([True, True, True, False, None])]
    if r < 0.75:
        return ['continue', rng.choice(['P1', 'P2', '#', '#i', 'P9']), rng.choice(TAGS + [OMIT]), rng.choice([True, False, False, None])]
    if r < 0.85:
        return ['raw', rng.choice(RAW)]
    if r < 0.95:
        c = rng.choice(['Steps', 'Other', 'Add'])
        return ['presave', c, rng.choice(INPUTS[c][:2] + INPUTS[c][2:4] if c != 'Add' else INPUTS[c][:2]), rng.choice(['P1', 'P2']), rng.randint(0, 5), rng.choice(TAGS)]
    if r < 0.98:
        return ['delete', rng.choice(['P1', 'P2', '#']), rng.choice(TAGS)]
    return ['delete_pid', rng.choice(['P1', 'P2', '#'])]


def generate(tier, rng, around=None):
    cases = []
    cfgs = configs(tier)
    if tier == 'widen':
        for c in (around or []):
            cases.append(c)
            for cand in shrink_candidates(c):
                cases.append(cand)
            for cfg in rng.sample(cfgs, 6):
                cases.append(dict(cfg, hist=c['hist']))
    else:
        # systematic part 1: every (persist, nowait) x class x inputs, as launch, and as create followed by continue, on every configuration
        for cfg in cfgs:
            for cls, inputs in (('Add', {'a': 2}), ('Steps', {'n': 5}), ('Steps', {'fail': 1}), ('Other', {'kill': 2}), ('Steps', {'fail': 3})):
                for persist, nowait in itertools.product((False, True), repeat=2):
                    cases.append(dict(cfg, hist=[['launch', cls, cfg['loader'], 'kw', inputs, 'P1', persist, nowait],
                                                 ['create', cls, cfg['loader'], 'kw', inputs, None, persist],
                                                 ['continue', 'P1', None, nowait], ['continue', '#', None, False]]))
        # systematic part 1b: flags left to the defaults of the create_*_body functions
        for cfg in [c for c in cfgs if not c['lcloader'] and not c['psave']]:
            cases.append(dict(cfg, hist=[['launch', 'Steps', cfg['loader'], 'kw', {'n': 1}, 'P1', None, None],
                                         ['create', 'Steps', cfg['loader'], 'kw', {'n': 2}, 'P2', None],
                                         ['create', 'Steps', cfg['loader'], 'kw', {'fail': 2}, 'P2', True],
                                         ['continue', 'P2', OMIT, None], ['continue', 'P2', 't1', None]]))
        # systematic part 2: continue from every mid-run checkpoint of every behaviour
        for cfg in [c for c in cfgs if c['persister'] != 'none' and (tier == 'thorough' or not c['lcloader'])]:
            for inputs in ({'n': 1}, {'fail': 1}, {'kill': 2}, {'fail': 3}):
                for k in range(0, 6):
                    cases.append(dict(cfg, hist=[['presave', 'Steps', inputs, 'P1', k, 't1'], ['continue', 'P1', 't1', k % 2 == 1],
                                                 ['continue', 'P1', None, False], ['continue', 'P1', 't1', False]]))
        # systematic part 3: every malformed / raw body on three configurations, after something was persisted
        for cfg in ({'persister': 'none', 'psave': None, 'loader': None, 'lcloader': None},
                    {'persister': 'mem', 'psave': None, 'loader': 'Nick', 'lcloader': None},
                    {'persister': 'pickle', 'psave': None, 'loader': 'Swap', 'lcloader': None}):
            for raw in RAW:
                cases.append(dict(cfg, hist=[['create', 'Steps', None, 'kw', {'n': 1}, 'P1', cfg['persister'] != 'none'], ['raw', raw],
                                             ['continue', 'P1', None, False]]))
    n_rand = {'quick': 500, 'thorough': 6000, 'widen': 1500}[tier]
    for _ in range(n_rand):
        cfg = rng.choice(cfgs)
        h = []
        for _ in range(rng.randint(1, 6 if tier != 'quick' else 5)):
            h.append(rand_item(rng, h))
        cases.append(dict(cfg, hist=h))
    return {'cases': cases, 'exhaustive': tier != 'widen',
            'scope': 'every configuration (3 persisters x 3 persister loaders x 3 launcher loaders x 3 load-context loaders) x 4 behaviours x (persist, nowait): '
                     'launch; create; continue of both; every checkpoint position 0..5 of three behaviours x continue; 24 malformed bodies x 3 configurations'}


def shrink_candidates(case):
    h = case['hist']
    for i in range(len(h)):
        yield dict(case, hist=h[:i] + h[i + 1:])
    for k in ('lcloader', 'psave', 'loader'):
        if case.get(k):
            yield dict(case, **{k: None})
