"""C02 — all reports of a terminated process's outcome agree and waiters are released."""
import itertools
import json

import life
from life import CORR_MODULE, CASE_TYPE, MODEL_FN, CORR_FILE, to_coq, distribution

PROP = 'C02'
SHARD = 200
RULE = ('base program (incl. kill inside a step, kill from a listener) x placement of <= 2 requests from {pause, play, kill, resume} at every callback '
        'boundary; every accessor sampled after every event and callback; non-trivial = the process terminated after at least one accepted request, '
        'or was killed while paused / inside a step / from a listener; distinct = distinct (program, schedule)')
ASSUMPTIONS = ['life-cycle hooks and listeners do not raise', 'step_until_terminated() is required to return only in schedules that complete every environment future the program awaits']

TERMINAL_LISTENER = {'finished': 'on_process_finished', 'excepted': 'on_process_excepted', 'killed': 'on_process_killed'}


def run_impl(case):
    return life.strip_obs(life.run_case(case))


def check_sample(s, trace, user_cancelled):
    st = s['state']
    acc = s['accessors']
    upto = trace[:s['pos']]
    if st in life.TERMINAL:
        fut = s['future']
        if st == 'finished':
            if fut[0] != 'result':
                return 'future_disagrees_with_state', 'finished but future %s' % fut[0]
            if acc['result'][0] != 'ok' or acc['successful'][0] != 'ok':
                return 'accessor_disagrees_with_state', 'finished but result()/successful() raise'
        elif st == 'excepted':
            exc = acc['exception']
            if fut[0] != 'exn' or exc[0] != 'ok' or exc[1] != ['exn', fut[1]] or acc['result'] != ['raised', fut[1]]:
                return 'future_disagrees_with_state', 'excepted: future %r, exception() %r, result() %r' % (fut, exc, acc['result'])
        else:
            km = acc['killed_msg']
            txt = km[1][1] if km[0] == 'ok' and isinstance(km[1], list) else None
            if fut[0] != 'exn' or fut[1][0] != 'killed' or (txt or '') != fut[1][1]:
                return 'future_disagrees_with_state', 'killed: future %r killed_msg %r' % (fut, km)
        if not s['closed']:
            return 'terminated_not_closed', st
        n_clean = sum(1 for e in upto if e == ['cleanup', 0])
        if n_clean != 1:
            return 'cleanup_count', n_clean
        counts = {k: sum(1 for e in upto if e == ['listener', v]) for k, v in TERMINAL_LISTENER.items()}
        if counts[st] != 1 or sum(counts.values()) != 1:
            return 'terminal_notification_count', counts
    else:
        if s['future'][0] not in ('pending',) and not (s['future'][0] == 'cancelled' and user_cancelled):
            return 'future_resolved_while_live', s['future'][0]
    return None


def oracle(case, obs):
    if obs['final'] is None:
        return None
    user_cancelled = any(e[0] == 'cancel' for e in case['events'])
    was_paused_at_end = None
    for s in obs['samples'] + [obs['final']]:
        r = check_sample(s, obs['trace'], user_cancelled)
        if r:
            return {'signature': r[0], 'kind': str(r[1]), 'at': s['tag'], 'context': context(case, obs)}
    f = obs['final']
    # every registered cleanup ran exactly once on a terminated process (also the ones registered around a failing one), none before
    for e in obs.get('side', []):
        if e[0] == 'extra_cleanups':
            want = 1 if f['state'] in life.TERMINAL else 0
            for name, n in sorted(e[1].items()):
                if n != want:
                    return {'signature': 'cleanup_count', 'kind': '%s ran %d times' % (name, n), 'context': context(case, obs)}
    # a step suspended in the user's own await of an environment future that this schedule never completes cannot return: that is
    # the environment's doing, not the library's (the demand is made whenever every awaited future is completed by the schedule)
    awaited = {a[1] for s in case['prog'].values() for a in s['actions'] if a[0] == 'await'}
    completed = {e[1] for e in obs.get('realized', case['events']) if e[0] == 'ext'}
    if f['state'] in life.TERMINAL and f['ready'] == 0 and f['t0'] != 'done' and awaited <= completed:
        return {'signature': 'stepping_task_not_returned', 'kind': f['t0'], 'context': context(case, obs)}
    return None


def context(case, obs):
    """coarse description of how the process terminated (part of the finding signature)"""
    f = obs['final']
    tags = []
    if f['paused']:
        tags.append('terminated_while_paused')
    if any(e[0] == 'ctl' and e[1][0] == 'fail' for e in obs['trace']):
        tags.append('fail')
    return '+'.join(tags) or 'plain'


def nontrivial(case, obs):
    if obs['final'] is None or obs['final']['state'] not in life.TERMINAL:
        return False
    return any(e[0] == 'ctl' and e[2][0] != 'raised' and e[2] != ['bool', False] for e in obs['trace'])


EVENTS = [['ctl', c] for c in (['pause', 'p'], ['pause', None], ['play'], ['kill', 'k'], ['resume'], ['resume', 42], ['fail', 'f'])] + [['late', 1]]


def programs():
    P = life.base_programs()
    S = life.script
    P['kill_in_step'] = {'run': S([('yield',), ('ctl', ['kill', 'inside']), ('yield',)], ('value', 1))}
    P['pause_in_step'] = {'run': S([('ctl', ['pause', 'self'])], ('continue', 's1', [], {})), 's1': S([], ('value', 1))}
    return P


NEEDS_OUTPUT = {'k': 'ns', 'req': True, 'vt': None, 'vld': None, 'dyn': True, 'pop': True, 'dflt': ['none'],
                'ports': [['needed', {'k': 'leaf', 'req': True, 'vt': None, 'vld': None, 'dflt': ['none']}]]}


def generate(tier, rng, around=None):
    cases = []
    if tier == 'widen':
        cases += list(around or [])
    progs = programs()
    names = list(progs) if tier != 'quick' else ['sync3', 'async', 'wait', 'output', 'raise', 'killcmd', 'kill_in_step', 'pause_in_step']
    variants = [{'callbacks': [['ok'], ['raise', 'cb']]}, {'listeners': [['on_process_running', 1, ['kill', 'from-listener']]]},
                {'listeners': [['on_process_waiting', 0, ['kill', 'from-listener']]]}]
    for name in names:
        prog = progs[name]
        for vi, extra in enumerate(variants):
            if vi and tier == 'quick' and name not in ('sync3', 'async', 'wait'):
                continue
            n = life.count_ticks(prog, extra) + 1
            singles = [(b, e) for b in range(n + 1) for e in EVENTS]
            cases.append(dict(extra, prog=prog, events=[['drain', 30]], _prog=name))
            for b, e in singles:
                cases.append(dict(extra, prog=prog, events=life.place(n, [(b, e)]) + [['drain', 30]], _prog=name))
            pairs = list(itertools.combinations(range(len(singles)), 2))
            k = {'quick': 250 if not vi else 60, 'thorough': 3000, 'widen': 1000}[tier]
            for i, j in (pairs if len(pairs) <= k else rng.sample(pairs, k)):
                cases.append(dict(extra, prog=prog, events=life.place(n, [singles[i], singles[j]]) + [['drain', 30]], _prog=name))
    # a required output that the program never emits: the successful finish is re-routed (StateEntryFailed) to FINISHED unsuccessful,
    # which must terminate the process exactly like any other way of finishing
    for name in ('sync3', 'async', 'output'):
        prog = progs[name]
        extra = {'ospec': NEEDS_OUTPUT}
        n = life.count_ticks(prog, extra) + 1
        cases.append(dict(extra, prog=prog, events=[['drain', 30]], _prog=name + '+missing-output'))
        for b in range(n + 1):
            for e in EVENTS:
                cases.append(dict(extra, prog=prog, events=life.place(n, [(b, e)]) + [['drain', 30]], _prog=name + '+missing-output'))
    # the schedules without a listener, once more with a listener that reacts to some notification with a control call of its own
    # (play / pause / kill / fail, made re-entrantly from inside the transition or the pause that notifies it): sampled
    pool = [c for c in cases if not c.get('listeners') and '_corpus' not in c]
    kl = {'quick': 200, 'thorough': 5000, 'widen': 500}[tier]
    for c in (pool if len(pool) <= kl else rng.sample(pool, kl)):
        l = rng.choice(['on_process_running', 'on_process_waiting', 'on_process_paused', 'on_process_played', 'on_process_finished',
                        'on_process_killed', 'on_process_excepted'])
        rc = rng.choice([['play'], ['pause', None], ['kill', 'lk'], ['fail', 'lf']])
        cases.append(dict(c, listeners=[[l, rng.choice([0, 1]), rc]]))
    return {'cases': cases, 'exhaustive': False,
            'scope': '%d programs x 3 listener variants x every single request (6 kinds) at every callback boundary; pairs sampled; '
                     'sampled: listeners reacting to any notification with play / pause / kill / fail' % len(names)}


def shrink_candidates(case):
    ev = case['events']
    for i in range(len(ev)):
        if ev[i][0] != 'drain':
            yield dict(case, events=ev[:i] + ev[i + 1:])
    if case.get('listeners'):
        yield dict(case, listeners=[])
