"""C15 — exposing ports copies exactly the selected ports, independently of the source."""
import copy
import itertools
import json
import warnings

import coqio
import portgen as pg
from coqio import c_bool, c_opt, c_str, c_list, c_pair

PROP = 'C15'
CORR_MODULE = 'PortModel Corr_Ports'
CASE_TYPE = 'C15_case'
MISMATCH_FN = 'c15_mismatches'
MODEL_FN = 'c15_model'
SHARD = 300
RULE = ('source port tree x destination tree x target namespace x include/exclude rule set x namespace options; real ProcessSpec.expose_inputs / '
        'expose_outputs; non-trivial = a rule set or option override is present and the source has a nested namespace; distinct = distinct case')
ASSUMPTIONS = ['port names non-empty and separator-free', 'no rule is an ancestor of another rule in the same set',
               'namespace option values are of the type of the property they override']


def c_optval(k, v):
    if k in ('required', 'dynamic', 'populate_defaults'):
        return '(OBool %s)' % c_bool(v)
    if k == 'valid_type':
        return '(OVt %s)' % pg.c_vt(v)
    if k == 'help':
        return '(OHelp %s)' % c_opt(v, c_str)
    if k == 'validator':
        return '(OVid %s)' % c_opt(v, c_str)
    if k == 'default':
        return '(ODflt %s)' % pg.c_dflt(v)
    return '(OBool true)'


def c_rules(r):
    return c_opt(r, lambda rs: c_list([c_str(x) for x in rs]))


def to_coq(case, obs):
    res = obs['result'] if not obs['raised'] else obs['dst']
    return '(mk_c15 %s %s %s %s %s %s %s %s)' % (
        pg.c_port(obs['dst']), pg.c_port(obs['src']), c_opt(case['namespace'], c_str), c_rules(case['exclude']),
        c_rules(case['include']), c_list([c_pair(c_str(k), c_optval(k, v)) for k, v in case['opts']]),
        c_bool(obs['raised']), pg.c_port(res))


def py_opts(opts):
    d = {}
    for k, v in opts:
        if k == 'valid_type':
            d[k] = pg.py_vt(v)
        elif k == 'validator':
            d[k] = None if v is None else pg.py_validator(v)
        elif k == 'default':
            d[k] = () if v[0] == 'none' else pg.py_dflt(v)
        else:
            d[k] = v
    return d


def run_impl(case):
    warnings.simplefilter('ignore')
    import plumpy
    which = case.get('which', 'input')
    kw = {'inputs': case['src']} if which == 'input' else {'outputs': case['src']}
    Src = pg.make_process_class(**kw)
    src_ns = Src.spec().inputs if which == 'input' else Src.spec().outputs
    spec = plumpy.ProcessSpec()
    pg.fill_namespace(spec, which, case['dst'])
    dst_ns = spec.inputs if which == 'input' else spec.outputs
    obs = {'dst': pg.describe(dst_ns), 'src': pg.describe(src_ns)}
    try:
        fn = spec.expose_inputs if which == 'input' else spec.expose_outputs
        fn(Src, namespace=case['namespace'], exclude=case['exclude'], include=case['include'],
           namespace_options=py_opts(case['opts']))
    except Exception as e:
        obs.update(raised=True, error=type(e).__name__, result=None)
        return obs
    obs.update(raised=False, result=pg.describe(dst_ns))
    # independence probes on the real objects
    target = dst_ns
    if case['namespace']:
        target = dst_ns.get_port(case['namespace'])
    shared = []

    def walk(s, d, path):
        for n, q in s.items():
            if n in d:
                if d[n] is q:
                    shared.append('.'.join(path + [n]))
                if isinstance(q, plumpy.PortNamespace) and isinstance(d[n], plumpy.PortNamespace):
                    if d[n]._ports is q._ports:
                        shared.append('.'.join(path + [n]) + '._ports')
                    walk(q, d[n], path + [n])
    walk(src_ns, target, [])
    obs['shared_objects'] = shared
    before_dst = pg.describe(dst_ns)
    # mutate every source port, then look at the destination again

    def mutate(nsobj):
        for n, q in list(nsobj.items()):
            q.required = not q.required
            q.help = 'mutated'
            # a mutable default is edited in place (not re-assigned)
            dv = q.default if hasattr(q, 'has_default') and q.has_default() else None
            if isinstance(dv, list):
                dv.append('mutated')
            elif isinstance(dv, dict):
                dv['mutated'] = True
            if isinstance(q, plumpy.PortNamespace):
                mutate(q)
                q.dynamic = not q.dynamic
        nsobj['zz_new'] = plumpy.InputPort('zz_new') if which == 'input' else plumpy.OutputPort('zz_new')
    mutate(src_ns)
    obs['dst_changed_by_src_mutation'] = pg.describe(dst_ns) != before_dst
    before_src = pg.describe(src_ns)
    mutate(target)
    obs['src_changed_by_dst_mutation'] = pg.describe(src_ns) != before_src
    return obs


# ------------------------------------------------------------ oracle (component level, no string prefix tests)
def oracle(case, obs):
    exp = expected(case, obs['dst'], obs['src'])
    if exp is None:
        if not obs['raised']:
            return {'signature': 'invalid_expose_accepted', 'kind': 'accepted'}
        return None
    if obs['raised']:
        return {'signature': 'valid_expose_rejected', 'kind': obs.get('error', '')}
    if obs['result'] != exp:
        return {'signature': classify(case, obs, exp), 'kind': 'ports', 'expected': exp, 'observed': obs['result']}
    if obs['shared_objects'] or obs['dst_changed_by_src_mutation'] or obs['src_changed_by_dst_mutation']:
        return {'signature': 'copy_not_independent', 'kind': 'alias', 'shared': obs['shared_objects']}
    return None


def classify(case, obs, exp):
    return 'exposed_ports_differ'


KNOWN_OPTS = ('default', 'dynamic', 'help', 'populate_defaults', 'required', 'valid_type', 'validator')


def expected(case, dst, src):
    ex, inc = case['exclude'], case['include']
    if ex is not None and inc is not None:
        return None
    if any(k not in KNOWN_OPTS for k, _ in case['opts']):
        return None
    ex_rules = [r.split('.') for r in ex] if ex else []
    inc_rules = [r.split('.') for r in inc] if inc else []

    def is_prefix(a, b):
        return len(a) <= len(b) and b[:len(a)] == a

    def filt(ports, path):
        out = []
        for n, p in ports:
            q = path + [n]
            if any(is_prefix(r, q) for r in ex_rules):
                continue
            if p['k'] == 'ns':
                if inc_rules and not any(is_prefix(r, q) or is_prefix(q, r) for r in inc_rules):
                    continue
                out.append([n, dict(p, ports=filt(p['ports'], q))])
            else:
                if inc_rules and not any(is_prefix(r, q) for r in inc_rules):
                    continue
                out.append([n, copy.deepcopy(p)])
        return out
    selected = filt(src['ports'], [])
    result = copy.deepcopy(dst)
    target = result
    if case['namespace']:
        for comp in case['namespace'].split('.'):
            found = [p for n, p in target['ports'] if n == comp]
            if found:
                if found[0]['k'] != 'ns':
                    return None
                target = found[0]
            else:
                new = pg.ns([])
                target['ports'].append([comp, new])
                target = new
    attrs = {k: src[k] for k in ('req', 'vt', 'dflt', 'vld', 'dyn', 'pop', 'help')}
    names = {'required': 'req', 'valid_type': 'vt', 'default': 'dflt', 'validator': 'vld', 'dynamic': 'dyn',
             'populate_defaults': 'pop', 'help': 'help'}
    for k, v in case['opts']:
        attrs[names[k]] = v
    if attrs['vt'] is not None:
        attrs['dyn'] = True
    target.update(attrs)
    for n, p in selected:
        for entry in target['ports']:
            if entry[0] == n:
                entry[1] = p
                break
        else:
            target['ports'].append([n, p])
    return result


def nontrivial(case, obs):
    has_ns = any(p['k'] == 'ns' for _, p in case['src']['ports'])
    return has_ns and bool(case['exclude'] or case['include'] or case['opts'])


def distribution(cases, obs):
    d = {'raised': 0, 'include': 0, 'exclude': 0, 'both': 0, 'namespaced_rule': 0, 'opts': 0, 'target_namespace': 0,
         'prefix_sibling_names': 0, 'outputs': 0}
    for c, o in zip(cases, obs):
        d['raised'] += o['raised']
        d['include'] += c['include'] is not None
        d['exclude'] += c['exclude'] is not None
        d['both'] += c['include'] is not None and c['exclude'] is not None
        d['namespaced_rule'] += any('.' in r for r in (c['include'] or []) + (c['exclude'] or []))
        d['opts'] += bool(c['opts'])
        d['target_namespace'] += bool(c['namespace'])
        names = [n for n, _ in c['src']['ports']]
        d['prefix_sibling_names'] += any(a != b and b.startswith(a) for a in names for b in names)
        d['outputs'] += c.get('which') == 'output'
    return d


# ------------------------------------------------------------ generators
def paths_of(tree, prefix=()):
    out = []
    for n, p in tree['ports']:
        out.append(prefix + (n,))
        if p['k'] == 'ns':
            out += paths_of(p, prefix + (n,))
    return out


def rule_sets(tree, rng=None, limit=None):
    ps = ['.'.join(p) for p in paths_of(tree)] + ['nope', 'ab.nope']
    sets = [[r] for r in ps]
    for a, b in itertools.combinations(ps, 2):
        if a.startswith(b + '.') or b.startswith(a + '.') or a == b:
            continue
        sets.append([a, b])
    if limit and len(sets) > limit:
        sets = rng.sample(sets, limit)
    return sets


def src_trees():
    L = pg.leaf
    t = []
    inner = pg.ns([('x', L()), ('y', L(req=False, vt=['int']))], req=False, help='inner')
    t.append(pg.ns([('a', L()), ('ab', inner), ('abc', pg.ns([('x', L(vt=['str']))], dyn=True))]))
    t.append(pg.ns([('ab', pg.ns([('x', L()), ('sub', pg.ns([('z', L(dflt=('val', 1)))], vt=['int']))])), ('a', pg.ns([('x', L())], pop=False))],
                   req=False, dyn=True, help='top'))
    t.append(pg.ns([('p', L(vld='rej_3')), ('q', L(dflt=('call', 'a')))], vld='rej_has_x'))
    t.append(pg.ns([], vt=['int', 'str']))
    # mutable defaults, on a top-level port and inside a nested namespace: the copies must not share them with the source
    t.append(pg.ns([('params', L(dflt=('val', {'tol': 1, 'tags': ['a']}))), ('opts', pg.ns([('grid', L(dflt=('val', [1, 2, 3])))]))]))
    return t


def dst_trees():
    L = pg.leaf
    return [pg.ns([]), pg.ns([('keep', L()), ('a', L(req=False))]), pg.ns([('n', pg.ns([('keep', L())], help='dst-n')), ('ab', L())], dyn=True)]


OPTS = [[], [['required', False]], [['dynamic', True]], [['valid_type', ['int']]], [['help', 'h']], [['populate_defaults', False]],
        [['bogus', True]], [['validator', 'rej_all']], [['dynamic', False], ['valid_type', ['str']]], [['default', ['val', {'x': 1}]]]]


def generate(tier, rng, around=None):
    cases = []
    if tier == 'widen':
        cases += list(around or [])
    srcs, dsts = src_trees(), dst_trees()
    for si, src in enumerate(srcs):
        sets = rule_sets(src)
        for di, dst in enumerate(dsts):
            for nsname in (None, 'n', 'n.m', 'keep', ''):
                combos = [(None, None)] + [(None, r) for r in sets] + [(r, None) for r in sets] + [([], None), (None, []), (['a'], ['ab']), ([], ['a'])]
                for ex, inc in combos:
                    if tier == 'quick' and (di == 2 or nsname in ('keep', '')) and rng.random() < 0.8:
                        continue
                    cases.append({'src': src, 'dst': dst, 'namespace': nsname, 'exclude': ex, 'include': inc, 'opts': []})
            for opts in OPTS:
                for nsname in (None, 'n'):
                    cases.append({'src': src, 'dst': dst, 'namespace': nsname, 'exclude': None, 'include': None, 'opts': opts})
                    if sets:
                        cases.append({'src': src, 'dst': dst, 'namespace': nsname, 'exclude': None, 'include': sets[0], 'opts': opts})
    # outputs variant (leaf ports without defaults)
    osrc = pg.ns([('a', pg.leaf()), ('ab', pg.ns([('x', pg.leaf(req=False))], dyn=True)), ('abc', pg.ns([('x', pg.leaf())]))])
    for ex, inc in [(None, None)] + [(None, r) for r in rule_sets(osrc)] + [(r, None) for r in rule_sets(osrc)]:
        cases.append({'which': 'output', 'src': osrc, 'dst': pg.ns([('keep', pg.leaf())]), 'namespace': 'sub', 'exclude': ex,
                      'include': inc, 'opts': []})
    n_rand = {'quick': 300, 'thorough': 3000, 'widen': 2000}[tier]
    import c11
    def sanitize(t):
        if t['k'] == 'leaf':
            if t['vld'] == 'rej_3' and t['dflt'] == ['val', 3]:
                t = dict(t, dflt=['none'])
            return t
        return dict(t, ports=[[n, sanitize(q)] for n, q in t['ports']])
    for _ in range(n_rand):
        src = sanitize(c11.rand_spec(rng, 2))
        dst = sanitize(c11.rand_spec(rng, 1))
        sets = rule_sets(src, rng, 6) or [[]]
        mode = rng.random()
        ex = rng.choice(sets) if mode < 0.4 else None
        inc = rng.choice(sets) if 0.4 <= mode < 0.8 else None
        cases.append({'src': src, 'dst': dst, 'namespace': rng.choice([None, 'n', 'a.b']), 'exclude': ex, 'include': inc,
                      'opts': rng.choice(OPTS) if rng.random() < 0.3 else []})
    return {'cases': cases, 'exhaustive': tier != 'widen',
            'scope': '4 source trees (prefix-sharing names a/ab/abc) x 3 destinations x 5 target namespaces x every rule set of <= 2 non-ancestor rules over all port paths (+2 unknown) as include and as exclude; 10 option sets'}


def shrink_candidates(case):
    for key in ('exclude', 'include'):
        r = case[key]
        if r and len(r) > 1:
            for i in range(len(r)):
                yield dict(case, **{key: r[:i] + r[i + 1:]})
    if case['opts']:
        yield dict(case, opts=[])
    if case['namespace']:
        yield dict(case, namespace=None)
    for side in ('dst', 'src'):
        t = case[side]
        for i in range(len(t['ports'])):
            yield dict(case, **{side: dict(t, ports=t['ports'][:i] + t['ports'][i + 1:])})
