"""C19 — any Savable round-trips its declared members through the named loader."""
import asyncio
import copy
import itertools
import json
import warnings

import coqio
from coqio import c_str, c_bool, c_list, c_opt, c_pair, c_val, c_exn

PROP = 'C19'
CORR_MODULE = 'Savable Corr_C19'
CASE_TYPE = 'C19_case'
MODEL_FN = 'c19_model'
SHARD = 250
RULE = ('Savable class shape (inheritance chain, decorator / classmethod / persist()-hook declarations, with and without earlier saves of the other classes) x member kinds and values x nesting x future state x '
        '(global loader, save context, load context); real classes created per case, saved and loaded; non-trivial = a custom loader is involved, '
        'or the object has a nested Savable / future / method member, or the chain has depth >= 2; distinct = distinct case')
ASSUMPTIONS = ['member values are plain data, own bound methods, Savables or SavableFutures', 'copy.deepcopy is faithful on plain data']


class UserError(Exception):
    def __eq__(self, other):
        return type(other) is type(self) and other.args == self.args

    def __hash__(self):
        return hash(self.args)


# ---------------------------------------------------------------- Gallina printers
def c_loader(l):
    return {'default': 'LDefault', 'custom': 'LCustom'}[l]


def c_fstate(f):
    if f[0] == 'pending':
        return 'FPending'
    if f[0] == 'cancelled':
        return 'FCancelled'
    if f[0] == 'result':
        return '(FResult %s)' % c_val(f[1])
    return '(FExn (EUser %s))' % c_str(f[1])


def c_mval(m):
    if m[0] == 'plain':
        return '(MPlain %s)' % c_val(m[1])
    if m[0] == 'method':
        return '(MMethod %s %s)' % (c_bool(m[1]), c_str(m[2]))
    if m[0] == 'obj':
        return '(MObj %s)' % c_sobj(m[1])
    return '(MFut %s)' % c_fstate(m[1])


def c_sobj(o):
    a = 'ANil'
    for n, v in reversed(o['attrs']):
        a = '(ACons %s %s %s)' % (c_str(n), c_mval(v), a)
    return '(SObj %s %s)' % (c_str(o['cls']), a)


def c_node(n):
    if isinstance(n, dict) and '__exn__' in n:
        return '(NExn (EUser %s))' % c_str(n['__exn__'])
    if isinstance(n, dict) and '__dict__' in n:
        k = 'KNil'
        for key, v in reversed(list(n['__dict__'].items())):
            k = '(KCons %s %s %s)' % (c_str(key), c_node(v), k)
        return '(NDict %s)' % k
    return '(NVal %s)' % c_val(n['__val__'])


def to_coq(case, obs):
    ct = c_list([c_pair(c_str(n), c_pair(c_opt(p, c_str), c_list([c_str(m) for m in own]))) for n, p, own, _ in case['classes']])
    saved = c_opt(obs['saved'], c_node)
    ld = obs['loaded']
    if ld[0] == 'ok':
        loaded = '(OLoaded %s)' % c_mval(ld[1])
    else:
        loaded = {'value_error': 'OValueError', 'other_error': 'OOtherError', 'not_run': 'ONotRun'}[ld[0]]
    return '(mk_c19 %s %s %s %s %s %s %s %s)' % (ct, c_sobj(case['obj']), c_loader(case['glob']), c_opt(case['save_ctx'], c_loader),
                                                 c_opt(case['load_ctx'], c_loader), c_opt(case.get('forget_class'), c_str), saved, loaded)


# ---------------------------------------------------------------- implementation side
_N = [0]
_L = []


def loop():
    if not _L:
        _L.append(asyncio.new_event_loop())
    asyncio.set_event_loop(_L[0])
    return _L[0]


def persisted(classes, cls):
    """members persisted for cls: parent chain first, then own; last occurrence kept (as the model's dedup)"""
    table = {n: (p, own) for n, p, own, _ in classes}
    names = []
    chain = []
    c = cls
    while c is not None and c in table:
        chain.append(c)
        c = table[c][0]
    for c in reversed(chain):
        names += table[c][1]
    out = []
    for i, n in enumerate(names):
        if n not in names[i + 1:]:
            out.append(n)
    return out


def build_classes(classes, suffix):
    import plumpy
    from plumpy import persistence
    import procs
    real = {}
    for name, parent, own, form in classes:
        base = real[parent] if parent else persistence.Savable

        def m1(self):
            return 1

        def m2(self):
            return 2
        klass = type(name + suffix, (base,), {'m1': m1, 'm2': m2})
        klass.__module__ = 'procs'
        setattr(procs, name + suffix, klass)
        if form == 'decorator':
            klass = persistence.auto_persist(*own)(klass)
        elif form == 'hook':
            # the members are declared in the persist() hook, which runs when an instance is first saved or loaded
            def persist(cls, _own=tuple(own), _klass=klass):
                super(_klass, cls).persist()
                cls.auto_persist(*_own)
            klass.persist = classmethod(persist)
        else:
            klass.auto_persist(*own)
        real[name] = klass
    return real


def make_future(f, lp):
    from plumpy import persistence
    fut = persistence.SavableFuture(loop=lp)
    if f[0] == 'result':
        fut.set_result(copy.deepcopy(f[1]))
    elif f[0] == 'exn':
        fut.set_exception(UserError(f[1]))
        fut.exception()
    elif f[0] == 'cancelled':
        fut.cancel()
    return fut


def build_obj(o, real, lp, other):
    inst = real[o['cls']].__new__(real[o['cls']])
    for n, v in o['attrs']:
        if v[0] == 'plain':
            import portgen
            setattr(inst, n, copy.deepcopy(portgen.decode(v[1])))
        elif v[0] == 'method':
            setattr(inst, n, getattr(inst if v[1] else other, v[2]))
        elif v[0] == 'obj':
            setattr(inst, n, build_obj(v[1], real, lp, other))
        else:
            setattr(inst, n, make_future(v[1], lp))
    return inst


def canon_state(st, suffix):
    """saved state -> JSON node with identifiers canonicalised"""
    def ident(s):
        return s.replace('plumpy.persistence:', 'procs:').replace('plumpy.loaders:', 'procs:').replace(suffix, '')

    def state(st):
        meta = st.get('!!meta', {})
        types = meta.get('types', {})
        out = {}
        for k, v in st.items():
            if k == '!!meta':
                m = {}
                for mk, mv in v.items():
                    if mk == 'user':
                        m[mk] = {'__dict__': {uk: {'__val__': ident(uv) if isinstance(uv, str) else uv} for uk, uv in mv.items()}}
                    elif mk == 'types':
                        m[mk] = {'__dict__': {tk: {'__val__': tv} for tk, tv in mv.items()}}
                    else:
                        m[mk] = {'__val__': ident(mv) if isinstance(mv, str) else mv}
                out[k] = {'__dict__': m}
            elif types.get(k) == 'S' and isinstance(v, dict):
                out[k] = state(v)
            elif isinstance(v, BaseException):
                out[k] = {'__exn__': str(v.args[0]) if v.args else ''}
            else:
                out[k] = {'__val__': v}
        return {'__dict__': out}
    return state(st)


def canon_obj(inst, classes, name_of, original=None):
    from plumpy import persistence
    if isinstance(inst, persistence.SavableFuture):
        if not inst.done():
            return ['fut', ['pending']]
        if inst.cancelled():
            return ['fut', ['cancelled']]
        e = inst.exception()
        if e is not None:
            return ['fut', ['exn', str(e.args[0])]]
        return ['fut', ['result', inst.result()]]
    cls = name_of[type(inst)]
    attrs = []
    for n in persisted(classes, cls):
        v = getattr(inst, n)
        import inspect
        if inspect.ismethod(v):
            attrs.append([n, ['method', v.__self__ is inst, v.__name__]])
        elif isinstance(v, persistence.Savable):
            attrs.append([n, canon_obj(v, classes, name_of)])
        else:
            import portgen
            attrs.append([n, ['plain', portgen.encode(v)]])
    return ['obj', {'cls': cls, 'attrs': attrs}]


_UNLOADABLE = []


def unloadable_loader_probe():
    """Implementation-only probe (no model term: in the model every recorded loader can be resolved), once per run: a state that
    records a loader which can no longer be loaded is rejected with ValueError — never silently resolved through another loader."""
    if _UNLOADABLE:
        return _UNLOADABLE[0]
    from plumpy import persistence, loaders
    import procs
    out = {}
    import plumpy
    try:
        loaders.set_object_loader(None)

        @persistence.auto_persist('a')
        class Old(persistence.Savable):
            pass

        @persistence.auto_persist('a')
        class New(persistence.Savable):
            pass
        for k, name in ((Old, 'ProbeOldC19'), (New, 'ProbeNewC19')):
            k.__module__ = 'procs'
            k.__qualname__ = name
            k.__name__ = name
            setattr(procs, name, k)

        class AliasLoader(plumpy.DefaultObjectLoader):
            """publishes the stable name of Old for the class New (a renamed class kept loadable under its old name)"""

            def identify_object(self, obj):
                return 'procs:ProbeOldC19' if obj is New else super().identify_object(obj)

            def load_object(self, identifier):
                return New if identifier == 'procs:ProbeOldC19' else super().load_object(identifier)
        AliasLoader.__module__ = 'procs'
        AliasLoader.__qualname__ = 'AliasLoaderC19'
        AliasLoader.__name__ = 'AliasLoaderC19'
        procs.AliasLoaderC19 = AliasLoader
        o = New.__new__(New)
        o.a = 1
        st = o.save(persistence.LoadSaveContext(loader=AliasLoader()))
        del procs.AliasLoaderC19                   # the module that defined the loader is gone / was renamed
        try:
            new = persistence.Savable.load(copy.deepcopy(st))
            out['outcome'] = ['loaded', type(new).__name__]
        except ValueError:
            out['outcome'] = ['value_error']
        except Exception as e:  # noqa: BLE001
            out['outcome'] = ['other_error', type(e).__name__]
    except Exception as e:  # noqa: BLE001
        out['outcome'] = ['probe_error', repr(e)[:200]]
    finally:
        loaders.set_object_loader(None)
    _UNLOADABLE.append(out)
    return out


def run_impl(case):
    obs = _run_impl(case)
    obs['unloadable_loader'] = unloadable_loader_probe()
    return obs


def _run_impl(case):
    warnings.simplefilter('ignore')
    import plumpy
    from plumpy import persistence, loaders
    import procs
    lp = loop()
    _N[0] += 1
    suffix = '_%d' % _N[0]
    real = build_classes(case['classes'], suffix)
    name_of = {k: n for n, k in real.items()}
    mk = {'default': lambda: None, 'custom': procs.PrefixLoader}
    try:
        loaders.set_object_loader(mk[case['glob']]())
        other = real[case['classes'][0][0]].__new__(real[case['classes'][0][0]])
        inst = build_obj(case['obj'], real, lp, other)
        if case.get('warm'):
            # instances of the other classes of the chain have been saved before (root first): that must not change anything
            for cname in [c[0] for c in case['classes']]:
                if cname != case['obj']['cls']:
                    try:
                        build_obj({'cls': cname, 'attrs': [[n, ['plain', 1]] for n in persisted(case['classes'], cname)]}, real, lp, other).save(None)
                    except Exception:  # noqa: BLE001
                        pass
        save_ctx = persistence.LoadSaveContext(loader=procs.PrefixLoader()) if case['save_ctx'] == 'custom' else (
            persistence.LoadSaveContext(loader=plumpy.DefaultObjectLoader()) if case['save_ctx'] == 'default' else None)
        obs = {}
        try:
            st = inst.save(save_ctx)
        except BaseException as e:
            return {'saved': None, 'loaded': ['not_run'], 'save_error': type(e).__name__}
        obs['saved'] = canon_state(st, suffix)
        # the snapshot must not depend on what happens to the original afterwards
        transported = copy.deepcopy(st) if case.get('transport') == 'copy' else st
        mutate_original(inst)
        if case.get('forget_class'):
            delattr(procs, case['forget_class'] + suffix)
        load_ctx = persistence.LoadSaveContext(loader=procs.PrefixLoader()) if case['load_ctx'] == 'custom' else (
            persistence.LoadSaveContext(loader=plumpy.DefaultObjectLoader()) if case['load_ctx'] == 'default' else None)
        try:
            new = persistence.Savable.load(transported, load_ctx)
            obs['loaded'] = ['ok', canon_obj(new, case['classes'], name_of)]
            obs['shares_mutable_state'] = shares(new, inst)
        except ValueError as e:
            obs['loaded'] = ['value_error']
        except BaseException as e:
            obs['loaded'] = ['other_error']
            obs['load_error'] = type(e).__name__
        return obs
    finally:
        loaders.set_object_loader(None)
        for k in list(vars(procs)):
            if k.endswith(suffix):
                delattr(procs, k)


def _mutate_value(v):
    """change every mutable container reachable from v in place (also inside tuples)"""
    if isinstance(v, list):
        for x in v:
            _mutate_value(x)
        v.append('mutated')
    elif isinstance(v, dict):
        for x in list(v.values()):
            _mutate_value(x)
        v['mutated'] = True
    elif isinstance(v, tuple):
        for x in v:
            _mutate_value(x)


def mutate_original(inst):
    from plumpy import persistence
    for n, v in list(vars(inst).items()):
        if isinstance(v, persistence.Savable) and not isinstance(v, persistence.SavableFuture):
            mutate_original(v)
        else:
            _mutate_value(v)


def _mutables(v, acc):
    if isinstance(v, (list, dict)):
        acc.append(v)
        for x in (v if isinstance(v, list) else v.values()):
            _mutables(x, acc)
    elif isinstance(v, tuple):
        for x in v:
            _mutables(x, acc)
    return acc


def shares(new, old):
    """does any mutable container reachable from a member of `new` also belong to the same member of `old`?"""
    from plumpy import persistence
    for n, v in vars(new).items():
        w = getattr(old, n, None)
        if isinstance(v, persistence.Savable) and not isinstance(v, persistence.SavableFuture):
            if isinstance(w, persistence.Savable) and (v is w or shares(v, w)):
                return True
            continue
        theirs = {id(x) for x in _mutables(w, [])}
        if any(id(x) in theirs for x in _mutables(v, [])):
            return True
    return False


# ---------------------------------------------------------------- oracle
def expected_members(case, o):
    """the declared members of o, as the property says they must come back"""
    attrs = dict((n, v) for n, v in o['attrs'])
    out = []
    for n in persisted(case['classes'], o['cls']):
        if n not in attrs:
            return None
        v = attrs[n]
        if v[0] == 'method':
            if not v[1]:
                return None
            out.append([n, ['method', True, v[2]]])
        elif v[0] == 'obj':
            sub = expected_members(case, v[1])
            if sub is None:
                return None
            out.append([n, ['obj', {'cls': v[1]['cls'], 'attrs': sub}]])
        else:
            out.append([n, v])
    return out


def classes_in(o):
    out = [o['cls']]
    for _, v in o['attrs']:
        if v[0] == 'obj':
            out += classes_in(v[1])
    return out


def oracle(case, obs):
    up = obs.get('unloadable_loader') or {}
    if up.get('outcome') and up['outcome'] != ['value_error']:
        return {'signature': 'state_with_unloadable_recorded_loader_not_rejected', 'kind': str(up['outcome'])}
    exp = expected_members(case, case['obj'])
    if exp is None:
        if obs['saved'] is not None:
            return {'signature': 'unsavable_object_saved', 'kind': 'save'}
        return None
    if obs['saved'] is None:
        sig = 'cancelled_future_cannot_be_saved' if obs.get('save_error') == 'CancelledError' else (
            'parent_class_polluted_by_subclass_auto_persist' if obs.get('save_error') == 'AttributeError' else 'savable_object_not_saved')
        return {'signature': sig, 'kind': obs.get('save_error', '')}
    # which loader should resolve the class?  context > recorded in the saved state > global
    saved_with = case['save_ctx'] or case['glob']
    resolver = case['load_ctx'] or case['save_ctx'] or case['glob']
    compatible = (resolver == saved_with)
    forgotten = case.get('forget_class') in classes_in(case['obj']) if case.get('forget_class') else False
    if not compatible or forgotten:
        if obs['loaded'][0] != 'value_error':
            return {'signature': 'unknown_class_not_a_value_error', 'kind': obs['loaded'][0]}
        return None
    if obs['loaded'][0] != 'ok':
        sig = 'recorded_loader_not_used' if (case['load_ctx'] is None and case['save_ctx'] is not None) else (
            'nested_savable_saved_without_context' if case['save_ctx'] is not None else 'roundtrip_failed')
        return {'signature': sig, 'kind': obs['loaded'][0], 'error': obs.get('load_error')}
    want = ['obj', {'cls': case['obj']['cls'], 'attrs': exp}]
    if obs['loaded'][1] != want:
        return {'signature': 'members_differ_after_roundtrip', 'kind': 'members', 'expected': want, 'observed': obs['loaded'][1]}
    if obs.get('shares_mutable_state'):
        return {'signature': 'loaded_object_shares_state_with_original', 'kind': 'alias'}
    return None


def nontrivial(case, obs):
    s = json.dumps(case['obj'])
    return case['glob'] != 'default' or case['save_ctx'] or case['load_ctx'] or '"obj"' in s or '"fut"' in s or '"method"' in s \
        or any(p for _, p, _, _ in case['classes'])


def distribution(cases, obs):
    d = {'custom_loader_involved': 0, 'nested': 0, 'future': 0, 'method': 0, 'depth2plus': 0, 'classmethod_form': 0, 'save_raised': 0,
         'load_value_error': 0, 'load_ok': 0}
    for c, o in zip(cases, obs):
        s = json.dumps(c['obj'])
        d['custom_loader_involved'] += bool(c['glob'] != 'default' or c['save_ctx'] or c['load_ctx'])
        d['nested'] += '"obj"' in s
        d['future'] += '"fut"' in s
        d['method'] += '"method"' in s
        d['depth2plus'] += any(p for _, p, _, _ in c['classes'])
        d['classmethod_form'] += any(f == 'classmethod' for _, _, _, f in c['classes'])
        d['save_raised'] += o['saved'] is None
        d['load_value_error'] += o['loaded'][0] == 'value_error'
        d['load_ok'] += o['loaded'][0] == 'ok'
    return d


# ---------------------------------------------------------------- generators
FUTS = [['pending'], ['result', 5], ['result', [1, 2]], ['exn', 'boom'], ['cancelled']]
PLAINS = [1, 'a', None, [1, 2], {'k': [1]}, True, {'__tuple__': [[1, 2], {'k': 1}]}]
LOADER_CFGS = [('default', None, None), ('default', 'custom', None), ('default', 'custom', 'custom'), ('default', None, 'custom'),
               ('custom', None, None), ('custom', 'custom', None), ('default', 'custom', 'default'), ('custom', None, 'default'),
               ('default', 'default', None)]


def shapes():
    S = []
    S.append([['K0', None, ['a', 'b'], 'decorator']])
    S.append([['K0', None, ['a'], 'decorator'], ['K1', 'K0', ['b'], 'decorator']])
    S.append([['K0', None, ['a'], 'decorator'], ['K1', 'K0', ['b'], 'classmethod']])
    S.append([['K0', None, ['a'], 'classmethod'], ['K1', 'K0', ['b', 'a'], 'decorator'], ['K2', 'K1', ['c'], 'decorator']])
    S.append([['K0', None, [], 'decorator'], ['K1', 'K0', ['a', 'b', 'c'], 'classmethod']])
    S.append([['K0', None, ['a'], 'hook'], ['K1', 'K0', ['b'], 'hook'], ['K2', 'K1', ['c'], 'hook']])
    S.append([['K0', None, ['a'], 'decorator'], ['K1', 'K0', ['b', 'c'], 'hook']])
    return S


def obj_for(classes, cls, values):
    names = persisted(classes, cls)
    return {'cls': cls, 'attrs': [[n, values[i % len(values)]] for i, n in enumerate(names)]}


def generate(tier, rng, around=None):
    cases = []
    if tier == 'widen':
        cases += list(around or [])
    inner_cls = ['KI', None, ['x', 'y'], 'decorator']
    for shape in shapes():
        classes = shape + [inner_cls]
        for cls in [c[0] for c in shape]:
            inner = {'cls': 'KI', 'attrs': [['x', ['plain', [1]]], ['y', ['fut', ['result', 3]]]]}
            inner2 = {'cls': 'KI', 'attrs': [['x', ['obj', {'cls': 'K0', 'attrs': [[n, ['plain', 7]] for n in persisted(classes, 'K0')]}]],
                                             ['y', ['method', True, 'm2']]]}
            value_sets = [[['plain', v] for v in PLAINS[:3]], [['plain', [1, 2]], ['plain', {'k': [1]}], ['method', True, 'm1']],
                          [['plain', {'__tuple__': [[1, 2], {'k': [3]}]}], ['plain', {'__tuple__': []}], ['plain', [{'__tuple__': [[0]]}]]],
                          [['obj', inner], ['fut', ['pending']], ['plain', 'a']], [['obj', inner2], ['fut', ['exn', 'boom']], ['fut', ['cancelled']]],
                          [['method', False, 'm1'], ['plain', 1], ['plain', 2]]]
            for vs in value_sets:
                o = obj_for(classes, cls, vs)
                for glob, sc, lc in LOADER_CFGS:
                    cases.append({'classes': classes, 'obj': o, 'glob': glob, 'save_ctx': sc, 'load_ctx': lc, 'transport': 'copy'})
            for f in FUTS:
                o = obj_for(classes, cls, [['fut', f], ['plain', 1]])
                for glob, sc, lc in LOADER_CFGS[:4]:
                    cases.append({'classes': classes, 'obj': o, 'glob': glob, 'save_ctx': sc, 'load_ctx': lc})
        # ... and after instances of the other classes of the chain were saved
        for cls in [c[0] for c in shape]:
            for vs in ([['plain', 1], ['plain', [2]], ['plain', 'c']], [['method', True, 'm1'], ['plain', {'k': 1}], ['plain', None]]):
                cases.append({'classes': classes, 'obj': obj_for(classes, cls, vs), 'glob': 'default', 'save_ctx': None, 'load_ctx': None,
                              'transport': 'copy', 'warm': True})
        # parents must stay savable after their subclasses were declared
        for cls in [c[0] for c in shape[:-1]]:
            cases.append({'classes': classes, 'obj': obj_for(classes, cls, [['plain', 1]]), 'glob': 'default', 'save_ctx': None, 'load_ctx': None})
        # a missing attribute / an unknown class
        cases.append({'classes': classes, 'obj': {'cls': shape[-1][0], 'attrs': []}, 'glob': 'default', 'save_ctx': None, 'load_ctx': None})
        cases.append({'classes': classes, 'obj': obj_for(classes, shape[-1][0], [['plain', 1]]), 'glob': 'default', 'save_ctx': None,
                      'load_ctx': None, 'forget_class': shape[-1][0]})
    n_rand = {'quick': 200, 'thorough': 3000, 'widen': 1500}[tier]
    for _ in range(n_rand):
        shape = rng.choice(shapes())
        classes = shape + [inner_cls]

        def rand_val(d):
            r = rng.random()
            if r < 0.4 or d == 0:
                return ['plain', rng.choice(PLAINS)]
            if r < 0.55:
                return ['method', rng.random() < 0.9, rng.choice(['m1', 'm2'])]
            if r < 0.75:
                return ['fut', rng.choice(FUTS)]
            c = rng.choice([c[0] for c in classes])
            return ['obj', {'cls': c, 'attrs': [[n, rand_val(d - 1)] for n in persisted(classes, c)]}]
        cls = rng.choice([c[0] for c in shape])
        o = {'cls': cls, 'attrs': [[n, rand_val(2)] for n in persisted(classes, cls)]}
        glob, sc, lc = rng.choice(LOADER_CFGS)
        cases.append({'classes': classes, 'obj': o, 'glob': glob, 'save_ctx': sc, 'load_ctx': lc, 'transport': rng.choice(['copy', None])})
    return {'cases': cases, 'exhaustive': tier != 'widen',
            'scope': '5 class shapes (chains of depth <= 3, both declaration forms) x 5 member value sets x 9 loader configurations; 5 future states x 4 configurations'}


def shrink_candidates(case):
    o = case['obj']
    for i, (n, v) in enumerate(o['attrs']):
        if v[0] != 'plain':
            a = list(o['attrs'])
            a[i] = [n, ['plain', 1]]
            yield dict(case, obj=dict(o, attrs=a))
    if case['load_ctx']:
        yield dict(case, load_ctx=None)
    if case['glob'] != 'default':
        yield dict(case, glob='default')
