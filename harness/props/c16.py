"""C16 — remote control equals direct control; each transition announced once, in order."""
import itertools
import json

import c16_run
import life
from coqio import c_str, c_bool, c_list, c_opt, c_nat

PROP = 'C16'
CORR_MODULE = 'Mon PortModel Adapters Model Run Corr_Life Rpc Corr_C16'
CASE_TYPE = 'C16_case'
MODEL_FN = 'c16_model'
SHARD = 150
RULE = ('a case = scripted program (sync / async steps, waits, awaited futures, failing step, kill command; listener scripts, hook faults) x a schedule '
        'of loop ticks with <= 3 control messages (RPC pause/play/kill/status through RemoteProcessThreadController and RemoteProcessController, '
        'pause_all/play_all/kill_all, hand-made RPC bodies and broadcasts, direct calls mixed in) placed at callback boundaries, x announcements made to '
        'fail; every case is run twice (remote / direct twin) and compared after every callback; non-trivial = a scheduled rpc callback ran on a live '
        'process, or a message was sent to a closed process, or an announcement failed; distinct = distinct case')
ASSUMPTIONS = [
    'one event-loop thread and a synchronous in-process communicator (kiwipy.CommunicatorHelper subclass delivering broadcasts positionally): '
    'no broker, no communicator thread; interleavings of call_soon_threadsafe with a second thread are not exhibited',
    'the direct twin receives the documented call (pause(text) / play() / kill(text) / get_status_info) at the loop boundary where the remote handler runs',
    'a transition counts as completed when on_entered got past the user hook of the entered state (a fault in that hook fails the transition)',
]
TRUSTED_EXTRA = [
    'classification of asyncio handles of the remote loop (process callback / subscriber coroutine / scheduled rpc callback / future plumbing) by coroutine name',
    'instrumentation subclass recording where message_receive / broadcast_receive / the scheduled pause, play, kill run',
]
LABELS = life.LABELS
HOOK = {'running': 'on_running', 'waiting': 'on_waiting', 'finished': 'on_finished', 'excepted': 'on_excepted', 'killed': 'on_killed'}
MARK = {'running': 'on_process_running', 'waiting': 'on_process_waiting', 'finished': 'on_process_finished',
        'excepted': 'on_process_excepted', 'killed': 'on_process_killed'}


# ------------------------------------------------------------------ running the implementation
def run_impl(case):
    obs = c16_run.run_twin(case)
    obs['regfault'] = c16_run.registration_fault_probe(case)
    return obs


# ------------------------------------------------------------------ printers
def c_sample(s):
    return '(%s, %s, %s)' % (c_opt(s[0], lambda x: LABELS[x]), c_bool(s[1]), c_opt(s[2], c_str))


def c_message(m):
    intent, _has, text = m
    return '(mk_msg %s %s)' % (c_str(intent), c_opt(text, c_str))


def c_body(b):
    if b is None:
        return 'BNone'
    if b[0] == 'dict':
        return '(BDict %s)' % c_opt(b[2], c_str)
    return 'BOther'


def c_xevent(e):
    k = e[0]
    if k == 'tick':
        return '(XBase ETick)'
    if k == 'base':
        return '(XBase %s)' % life.c_env(e[1])
    if k == 'send_rpc':
        return '(XSendRpc %s)' % c_message(e[1])
    if k == 'send_bc':
        return '(XSendBc (mk_bmsg %s %s))' % (c_opt(e[1], c_str), c_body(e[2]))
    if k in ('recv_rpc', 'recv_bc'):
        return 'XRecv'
    if k == 'run_rpc':
        return 'XRunRpc'
    raise ValueError(e)


def sample_of_event(e):
    return {'tick': 1, 'base': 2, 'send_rpc': 2, 'send_bc': 3, 'recv_rpc': 1, 'recv_bc': 1, 'run_rpc': 1}[e[0]]


def c_reply(r):
    k = r[0]
    if k == 'val':
        return '(RpVal %s)' % c_bool(r[1])
    if k == 'status':
        lab = r[2].split('.')[-1].lower()
        return '(RpStatus %s (Some %s))' % (c_bool(r[1]), LABELS[lab])
    return {'pending': 'RpPending', 'unroutable': 'RpUnroutable', 'err': 'RpErr', 'cancelled': 'RpCancelled'}[k]


def c_final(f):
    return '(mk_final %s %s %s %s %s %s %s %s %s)' % (
        LABELS[f['state']], life.c_pfut(f['future']), c_bool(f['paused']), c_opt(f['status'], c_str),
        {'pending': 'T0Pending', 'done': 'T0Done', 'failed': 'T0Failed'}[f['t0']],
        c_list([life.c_afut(a) for a in f['actions']]), c_bool(f['killing']), c_bool(f['closed']), c_nat(f['ready']))


def tolerated_fails(case):
    return [k for k, kind in (case.get('bfail') or []) if kind in c16_run.TOLERATED]


def to_coq(case, obs):
    try:
        return _to_coq(case, obs)
    except (ValueError, KeyError, AssertionError, TypeError):
        # an observation outside the model's vocabulary (e.g. an exception type the model does not know): a case
        # that cannot match, so that it is reported as a mismatch instead of crashing the run
        return '(mk_c16 %s [] [] [] None [] [] [] [] (true, true))' % life.c_config(dict(case, fault=None, listeners=[], callbacks=[]))


def _to_coq(case, obs):
    cfg = life.c_config(case)
    fails = c_list([c_nat(k) for k in tolerated_fails(case)])
    if obs['R'] is None:
        return '(mk_c16 %s [] %s [] None [] [] [] [] (true, true))' % (cfg, fails)
    xe = obs['xevents']
    return '(mk_c16 %s %s %s %s (Some %s) %s %s %s %s (%s, %s))' % (
        cfg, c_list([c_xevent(e) for e in xe]), fails,
        c_list([life.c_event(e) for e in obs['R']['trace']]), c_final(obs['R']['final']),
        c_list([c_sample(e[sample_of_event(e)]) for e in xe]),
        c_list([c_reply(r) for r in obs['replies']]),
        c_list([c_str(a[0]) for a in obs['attempted']]), c_list([c_str(a[0]) for a in obs['delivered']]),
        c_bool(obs['R']['subscribed'][0]), c_bool(obs['R']['subscribed'][1]))


# ------------------------------------------------------------------ oracle: the property, directly on the two runs
def completed_entries(trace):
    """entries whose on_entered got past the state's user hook and told the listeners (CREATED has no hook)"""
    out = []
    for i, e in enumerate(trace):
        if e[0] != 'entered':
            continue
        t = e[2]
        if t == 'created':
            out.append(e)
        elif trace[i + 1:i + 3] == [['hook', HOOK[t]], ['listener', MARK[t]]]:
            out.append(e)
    return out


def oracle(case, obs):
    if obs['R'] is None:
        if obs['constructor_raised'][0] != obs['constructor_raised'][1]:
            return {'signature': 'constructor_differs', 'kind': str(obs['constructor_raised'])}
        return None
    R, D = obs['R'], obs['D']
    # 0. (implementation only) a time-out of the RPC registration leaves the broadcast control path in place
    p = obs.get('regfault') or {}
    if p.get('error'):
        return {'signature': 'registration_timeout_disturbs_the_process', 'kind': p['error']}
    if p.get('ran') and p.get('final'):
        if p['subscribed'] != [False, True]:
            return {'signature': 'registration_timeout_changes_the_broadcast_subscription', 'kind': str(p['subscribed'])}
        if p['live_after_pause'] and not p['paused']:
            return {'signature': 'broadcast_pause_lost_after_registration_timeout', 'kind': p['final']}
        if p['live_after_pause'] and p['final'] not in ('killed', 'excepted', 'killing'):
            return {'signature': 'broadcast_kill_lost_after_registration_timeout', 'kind': p['final']}
    # 1. remote == direct, after every callback and at the end
    if obs['diverged'] is not None:
        d = obs['diverged']
        return {'signature': 'remote_differs_from_direct', 'kind': '%s@%s' % (d['field'], d['event']), 'detail': d}
    if R['trace'] != D['trace']:
        i = next((i for i, (a, b) in enumerate(zip(R['trace'], D['trace'])) if a != b), min(len(R['trace']), len(D['trace'])))
        return {'signature': 'remote_trace_differs_from_direct', 'kind': str(R['trace'][i:i + 1]) + ' vs ' + str(D['trace'][i:i + 1])}
    fa, fb = dict(R['final'], tag=''), dict(D['final'], tag='')
    if fa != fb:
        return {'signature': 'remote_final_differs_from_direct', 'kind': str([k for k in fa if fa[k] != fb[k]])}
    # 1b. the controllers put the documented message on the wire
    for want, seen in obs['wire']:
        if want != seen:
            return {'signature': 'controller_sent_wrong_message', 'kind': '%s vs %s' % (want, seen)}
    # 2. the replies are the results of the direct calls
    if obs['quiescent']:
        if obs['never_ran']:
            return {'signature': 'scheduled_call_never_ran', 'kind': str(obs['never_ran'][0][0])}
        if len(obs['replies']) != len(obs['direct_replies']):
            return {'signature': 'reply_count', 'kind': '%d vs %d' % (len(obs['replies']), len(obs['direct_replies']))}
        for i, (a, b) in enumerate(zip(obs['replies'], obs['direct_replies'])):
            if a[0] == 'err' and b[0] == 'err':
                continue
            if a != b:
                return {'signature': 'reply_differs_from_direct_result', 'kind': '%s vs %s' % (a[0], b[0]), 'index': i, 'remote': a, 'direct': b}
    # 3. announcements: one per completed transition, in order, from the pid, body None; consecutive
    ent = [e for e in R['trace'] if e[0] == 'entered']
    for a, b in zip(ent, ent[1:]):
        if b[1] != a[2]:
            return {'signature': 'entries_not_consecutive', 'kind': '%s then %s' % (a, b)}
    want = [['state_changed.%s.%s' % (e[1], e[2]), c16_run.PID, None] for e in completed_entries(R['trace'])]
    if obs['attempted'] != want:
        return {'signature': 'announcements_wrong', 'kind': 'attempted %d expected %d' % (len(obs['attempted']), len(want)),
                'attempted': obs['attempted'], 'expected': want}
    fails = dict((k, v) for k, v in (case.get('bfail') or []))
    if all(v in c16_run.TOLERATED for v in fails.values()):
        wantd = [a for i, a in enumerate(want) if i not in fails]
        if obs['delivered'] != wantd:
            return {'signature': 'announcements_delivered_wrong', 'kind': 'delivered %d expected %d' % (len(obs['delivered']), len(wantd))}
        # a tolerated failure disturbs nothing: the twin had no failure at all and was compared above
    # 4. subscriptions: made once, removed exactly once when the process closes, never before
    log = [e for e in R['sub_log'] if e[2] == c16_run.PID]
    closed = R['final']['closed']
    want_log = [['add', 'rpc', c16_run.PID], ['add', 'broadcast', c16_run.PID]] + \
        ([['remove', 'rpc', c16_run.PID], ['remove', 'broadcast', c16_run.PID]] if closed else [])
    if log != want_log:
        return {'signature': 'subscriptions_wrong', 'kind': str(log[2:]), 'closed': closed}
    if R['subscribed'] != [not closed, not closed]:
        return {'signature': 'subscriptions_wrong', 'kind': 'state %s closed %s' % (R['subscribed'], closed)}
    if R['final']['state'] in life.TERMINAL and obs['quiescent'] and not closed and not case.get('fault'):
        return {'signature': 'terminated_but_not_closed', 'kind': R['final']['state']}
    # 5. a closed process no longer receives messages
    for e in obs['xevents']:
        if e[0] == 'send_rpc' and e[3] != (not e[4]):
            return {'signature': 'routing_wrong', 'kind': 'closed=%s routable=%s' % (e[4], e[3])}
        if e[0] == 'send_bc' and e[4] != (not e[5]):
            return {'signature': 'broadcast_routing_wrong', 'kind': 'closed=%s subscribed=%s' % (e[5], e[4])}
    return None


def nontrivial(case, obs):
    if obs['R'] is None:
        return False
    live_call = any(e[0] == 'run_rpc' and e[2] for e in obs['xevents'])
    closed_send = any(e[0] == 'send_rpc' and not e[3] for e in obs['xevents'][:-6])
    return live_call or closed_send or bool(case.get('bfail'))


def distribution(cases, obs):
    d = {'messages': {}, 'final_states': {}, 'replies': {}, 'handlers_run': 0, 'in_step_calls': 0, 'bfail': 0, 'faults': 0, 'listeners': 0,
         'constructor_raised': 0, 'max_xevents': 0}
    for c, o in zip(cases, obs):
        for e in c['events']:
            if e[0] in ('rpc', 'arpc', 'all'):
                key = '%s_%s' % (e[0], e[1])
            elif e[0] in ('raw', 'bc', 'ctl'):
                key = e[0]
            else:
                continue
            d['messages'][key] = d['messages'].get(key, 0) + 1
        d['bfail'] += bool(c.get('bfail'))
        d['faults'] += bool(c.get('fault'))
        d['listeners'] += bool(c.get('listeners'))
        if o['R'] is None:
            d['constructor_raised'] += 1
            continue
        st = o['R']['final']['state']
        d['final_states'][st] = d['final_states'].get(st, 0) + 1
        for r in o['replies']:
            d['replies'][r[0]] = d['replies'].get(r[0], 0) + 1
        d['handlers_run'] += sum(1 for e in o['xevents'] if e[0] == 'run_rpc')
        d['in_step_calls'] += sum(1 for e in o['R']['trace'] if e[0] == 'ctl' and e[2][0] == 'action')
        d['max_xevents'] = max(d['max_xevents'], len(o['xevents']))
    return d


# ------------------------------------------------------------------ generators
S = life.script


def programs():
    P = {}
    P['async'] = {'run': S([('yield',), ('observe',), ('yield',)], ('continue', 's1', [], {})), 's1': S([('yield',), ('yield',)], ('value', 3))}
    P['wait'] = {'run': S([], ('wait', 's1', 'waiting', None)), 's1': S([('observe',), ('yield',)], ('value', 1))}
    P['ext'] = {'run': S([('await', 0)], ('continue', 's1', [], {})), 's1': S([('out', 'x', 1), ('await', 1)], ('value', 2))}
    P['sync'] = {'run': S([], ('continue', 's1', [1], {})), 's1': S([], ('value', 7))}
    P['failing'] = {'run': S([('yield',), ('yield',)], ('raise', 'boom'))}
    P['killcmd'] = {'run': S([('yield',), ('yield',)], ('kill', ['bye']))}
    P['selfctl'] = {'run': S([('yield',), ('ctl', ['pause', 'self']), ('yield',), ('yield',)], ('value', 1))}
    return P


VARIANTS = [
    {},
    {'listeners': [['on_process_paused', 0, ['kill', 'L']]]},
    {'listeners': [['on_process_running', 1, ['pause', 'L']]]},
    {'listeners': [['on_process_played', 0, ['pause', 'again']]]},
    {'fault': ['on_running', 1, 'hf']},
    {'fault': ['on_pausing', 0, 'hf']},
    {'fault': ['on_playing', 0, 'hf']},
    {'fault': ['on_killed', 0, 'hf']},
    {'fault': ['on_close', 0, 'hf']},
    {'fault': ['on_terminated', 0, 'hf']},
]

MESSAGES = [
    ['rpc', 'pause', 'p'], ['rpc', 'pause', None], ['rpc', 'play'], ['rpc', 'kill', 'k'], ['rpc', 'kill', None], ['rpc', 'status'],
    ['arpc', 'pause', 'ap'], ['arpc', 'play'], ['arpc', 'kill', 'ak'], ['arpc', 'status'],
    ['all', 'pause', 'all'], ['all', 'pause', None], ['all', 'play'], ['all', 'kill', 'allk'],
    ['raw', {'intent': 'bogus', 'message': 'x'}], ['raw', {'intent': 'pause'}], ['raw', {'intent': 'kill', 'message': 'raw', 'force_kill': True}],
    ['raw', {'intent': 'Play', 'message': None}],
    ['bc', 'foo', None], ['bc', None, {'intent': 'kill', 'message': 'nosubject'}], ['bc', 'state_changed.created.killed', None, 'intruder'],
    ['bc', 'pause', None], ['bc', 'kill', {}], ['bc', 'play', 'text-body'], ['bc', 'pause', 'text-body'], ['bc', 'state_changedX', {'message': 'm'}],
    ['ctl', ['pause', 'direct']], ['ctl', ['play']], ['ctl', ['kill', 'direct']],
]
CORE = [m for m in MESSAGES if m[0] in ('rpc', 'all') or m in (['arpc', 'kill', 'ak'], ['arpc', 'pause', 'ap'])]
TAIL = [['ext', 0, ['val', 1]], ['drain', 80], ['ext', 1, ['val', 2]], ['ctl', ['resume', 9]], ['drain', 80],
        ['rpc', 'status'], ['rpc', 'play'], ['drain', 80], ['rpc', 'kill', 'probe'], ['all', 'kill', 'probe2'], ['arpc', 'status'], ['drain', 80]]


def schedule(placed):
    """placed: list of (ticks before, message)"""
    ev = []
    for n, m in placed:
        ev += [['tick']] * n
        ev.append(m)
    return ev + TAIL


NEEDS_OUTPUT = {'k': 'ns', 'req': True, 'vt': None, 'vld': None, 'dyn': True, 'pop': True, 'dflt': ['none'],
                'ports': [['needed', {'k': 'leaf', 'req': True, 'vt': None, 'vld': None, 'dflt': ['none']}]]}


def generate(tier, rng, around=None):
    cases = []
    if tier == 'widen':
        cases += list(around or [])
    progs = programs()
    big = tier != 'quick'

    def add(prog, extra, placed, bfail=None):
        c = dict(extra, prog=progs[prog], events=schedule(placed), _prog=prog)
        if bfail:
            c['bfail'] = bfail
        cases.append(c)

    for name in progs:
        # one message of every kind at every early boundary, plain variant
        for b in range(0, 7 if big else 5):
            for m in MESSAGES:
                add(name, {}, [(b, m)])
        add(name, {}, [])
        # variants: listeners re-entering, hook faults
        for extra in VARIANTS[1:]:
            add(name, extra, [])
            for b in (0, 2, 5) if not big else range(0, 7):
                for m in (CORE if big else CORE[:6] + CORE[8:10]):
                    add(name, extra, [(b, m)])
        # two and three messages: the second one lands while the first is in flight / scheduled / done
        pairs = [(b1, m1, d, m2) for b1 in (0, 1, 3) for d in (0, 1, 2, 4, 6, 9) for m1 in CORE for m2 in CORE]
        lim = {'quick': 60, 'thorough': 900, 'widen': 300}[tier]
        for b1, m1, d, m2 in (pairs if len(pairs) <= lim else rng.sample(pairs, lim)):
            add(name, {}, [(b1, m1), (d, m2)])
        triples = [(b1, m1, d, m2, d2, m3) for b1 in (0, 2) for d in (0, 3, 7) for d2 in (0, 2, 7) for m1 in CORE for m2 in CORE for m3 in MESSAGES]
        lim3 = {'quick': 25, 'thorough': 500, 'widen': 150}[tier]
        for b1, m1, d, m2, d2, m3 in rng.sample(triples, lim3):
            extra = rng.choice(VARIANTS) if rng.random() < 0.3 else {}
            add(name, extra, [(b1, m1), (d, m2), (d2, m3)])
        # announcements made to fail
        for k in range(0, 5):
            for kind in c16_run.TOLERATED:
                add(name, {}, [(1, ['rpc', 'pause', 'p'])] if k % 2 else [], bfail=[[k, kind]])
        add(name, {}, [(2, ['rpc', 'kill', 'k'])], bfail=[[0, 'closed'], [1, 'timeout'], [2, 'channel'], [3, 'closed']])
        # a required output that is never emitted: the process ends FINISHED-unsuccessful through the substitute state; it must be
        # closed and unsubscribed like any other terminated process, later messages do not reach it
        add(name, {'ospec': NEEDS_OUTPUT}, [])
        for b in (0, 2, 9):
            for m in CORE[:4]:
                add(name, {'ospec': NEEDS_OUTPUT}, [(b, m)])
    return {'cases': cases, 'exhaustive': True,
            'scope': '7 programs x every message kind (29) at every one of the first 5 (quick) / 7 boundaries; 9 listener / hook-fault variants x core '
                     'messages; sampled pairs and triples of messages; each single announcement 0..4 failing with each tolerated kind'}


def shrink_candidates(case):
    ev = case['events']
    for i in range(len(ev)):
        if ev[i][0] != 'drain':
            yield dict(case, events=ev[:i] + ev[i + 1:])
    if case.get('listeners'):
        yield dict(case, listeners=[])
    if case.get('bfail'):
        for i in range(len(case['bfail'])):
            yield dict(case, bfail=case['bfail'][:i] + case['bfail'][i + 1:])
