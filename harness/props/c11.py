"""C11 — only spec-conforming inputs create a process; defaults applied; inputs immutable."""
import copy
import itertools
import json
import warnings

import coqio
import portgen as pg
from coqio import c_bool, c_opt, c_val

PROP = 'C11'
CORR_MODULE = 'PortModel Corr_Ports'
CASE_TYPE = 'C11_case'
MISMATCH_FN = 'c11_mismatches'
MODEL_FN = 'c11_model'
SHARD = 400
RULE = ('input spec tree x nested input dictionary; real Process subclass defined per spec and constructed; '
        'non-trivial = the spec has >= 1 port and (a default was applied, or the input was rejected, or a nested/dynamic value was supplied); '
        'distinct = distinct (spec, inputs)')
ASSUMPTIONS = ['validators are deterministic functions of the value (family in harness/portgen.py)',
               'values supplied at declared namespace keys are dicts or non-iterable scalars (no str/list/tuple/frozendict there)',
               'port names are non-empty and separator-free; dict keys unique']


def to_coq(case, obs):
    raw = c_opt(case['inputs'], pg.c_kvs)
    parsed = 'VNone' if obs['raised'] else c_val(obs['parsed'])
    return '(mk_c11 %s %s %s %s %s)' % (pg.c_port(case['spec'], declared=True), raw, c_bool(bool(obs.get('spec_rejected'))), c_bool(obs['raised']), parsed)


_CACHE = {}


def run_impl(case):
    warnings.simplefilter('ignore')
    import asyncio
    key = json.dumps(case['spec'])
    try:
        if key not in _CACHE:
            klass = pg.make_process_class(inputs=case['spec'])
            klass.spec()
            _CACHE[key] = klass
        klass = _CACHE[key]
    except Exception as e:
        return {'spec_rejected': True, 'raised': True, 'parsed': None, 'error': type(e).__name__}
    loop = _loop()
    given = None if case['inputs'] is None else pg.decode(case['inputs'])
    snapshot = copy.deepcopy(given)
    try:
        proc = klass(inputs=given, loop=loop)
    except Exception as e:
        return {'raised': True, 'parsed': None, 'error': type(e).__name__,
                'caller_unchanged': snapshot == given}
    parsed = pg.encode(proc.inputs)
    raw = None if proc.raw_inputs is None else pg.encode(dict(proc.raw_inputs))
    # read-only at every declared namespace level: attempted item assignment must fail
    writable = []

    def probe(value, tree, path):
        from collections.abc import Mapping
        if not isinstance(value, Mapping):
            writable.append(path + ['<not a mapping>'])
            return
        try:
            value['__probe__'] = 1
            writable.append(path)
            del value['__probe__']
        except TypeError:
            pass
        for n, p in tree['ports']:
            if p['k'] == 'ns' and n in value:
                probe(value[n], p, path + [n])
    probe(proc.inputs, case['spec'], [])
    proc.close()
    return {'raised': False, 'parsed': parsed, 'raw': raw, 'writable': writable,
            'caller_unchanged': snapshot == given, 'state': proc.state.value}


_L = []


def _loop():
    import asyncio
    if not _L:
        _L.append(asyncio.new_event_loop())
        asyncio.set_event_loop(_L[0])
    return _L[0]


# ------------------------------------------------------------ oracle: declarative reading of the property
UNSPEC = {'__tuple__': []}


def isinst(v, ts):
    def one(t):
        if t == 'int':
            return isinstance(v, int)
        if t == 'bool':
            return isinstance(v, bool)
        if t == 'str':
            return isinstance(v, str)
        if t == 'dict':
            return isinstance(v, dict) and set(v.keys()) not in ({'__tuple__'}, {'__frozen__'})
        if t == 'list':
            return isinstance(v, list)
        if t == 'none':
            return v is None
    return any(one(t) for t in ts)


def is_plain_dict(v):
    return isinstance(v, dict) and set(v.keys()) not in ({'__tuple__'}, {'__frozen__'})


def complete(tree, m):
    """Declared defaults filled in (DESIGN §4 C11).  Raises TypeError for a non-dict at a namespace key."""
    out = dict(m)
    for n, p in tree['ports']:
        if n not in m:
            if p['k'] == 'ns' and not p['pop']:
                continue
            if p['dflt'][0] != 'none':
                out[n] = copy.deepcopy(p['dflt'][1])
            elif p['k'] == 'ns' and p['ports']:
                out[n] = {}
            else:
                continue
        if p['k'] == 'ns':
            if not is_plain_dict(out[n]):
                raise TypeError('non-mapping for namespace')
            out[n] = {'__frozen__': complete(p, out[n])}
    return out


def unfrozen(v):
    if isinstance(v, dict) and set(v.keys()) == {'__frozen__'}:
        return v['__frozen__']
    return v


def truthy(v):
    v = unfrozen(v)
    if isinstance(v, dict) and set(v.keys()) == {'__tuple__'}:
        return bool(v['__tuple__'])
    return bool(v)


def conforms(p, present, v):
    if p['k'] == 'leaf':
        if not present or v == UNSPEC:
            return not (p['req'] and p['dflt'][0] == 'none')     # a port with a default is never required
        if p['vt'] is not None and not isinst(v, p['vt']):
            return False
        if p['vld'] is not None and pg.VALIDATORS[p['vld']](pg.decode(unfrozen(v)) if not isinstance(v, dict) or '__frozen__' not in v else thaw(v)):
            return False
        return True
    m = unfrozen(v) if (present and truthy(v)) else {}
    if not isinstance(m, dict) or set(m.keys()) == {'__tuple__'}:
        return False
    if not m and not p['req']:
        return True
    declared = [n for n, _ in p['ports']]
    for n, q in p['ports']:
        if not conforms(q, n in m, m.get(n)):
            return False
    extra = {k: x for k, x in m.items() if k not in declared}
    if extra and not p['dyn']:
        return False
    if p['vt'] is not None:
        def dyn_ok(x):
            if truthy(x) and not p['dyn']:
                return False
            if is_plain_dict(x):
                return all(dyn_ok(y) for y in x.values())
            return isinst(x, p['vt'])
        if not all(dyn_ok(x) for x in extra.values()):
            return False
    if p['vld'] is not None and pg.VALIDATORS[p['vld']](thaw(m)):
        return False
    return True


def thaw(v):
    v = unfrozen(v)
    if isinstance(v, dict):
        if set(v.keys()) == {'__tuple__'}:
            return tuple(thaw(x) for x in v['__tuple__'])
        return {k: thaw(x) for k, x in v.items()}
    if isinstance(v, list):
        return [thaw(x) for x in v]
    return v


def oracle(case, obs):
    if obs.get('spec_rejected'):
        return None
    if not in_domain(case):
        return None
    raw = case['inputs'] or {}
    try:
        comp = {'__frozen__': complete(case['spec'], raw)}
        ok = conforms(case['spec'], True, comp)
    except TypeError:
        comp, ok = None, False
    if ok and obs['raised']:
        return {'signature': 'conforming_inputs_rejected', 'kind': obs.get('error', ''), 'expected': comp}
    if not ok and not obs['raised']:
        return {'signature': 'nonconforming_inputs_accepted', 'kind': 'accepted', 'observed': obs['parsed']}
    if not obs['caller_unchanged']:
        return {'signature': 'caller_dict_mutated', 'kind': 'alias'}
    if not obs['raised']:
        if obs['parsed'] != comp:
            return {'signature': 'parsed_inputs_differ', 'kind': 'parsed', 'expected': comp, 'observed': obs['parsed']}
        if obs['writable']:
            return {'signature': 'inputs_writable', 'kind': 'frozen', 'paths': obs['writable']}
        if obs['raw'] != case['inputs']:
            return {'signature': 'raw_inputs_changed', 'kind': 'raw', 'observed': obs['raw']}
    return None


def in_domain(case):
    """values at declared namespace keys are dicts or non-iterable scalars"""
    def go(tree, m):
        for n, p in tree['ports']:
            if p['k'] == 'ns' and n in m:
                v = m[n]
                if is_plain_dict(v):
                    if not go(p, v):
                        return False
                elif isinstance(v, (str, list)) or isinstance(v, dict):
                    return False
        return True
    return go(case['spec'], case['inputs'] or {})


def nontrivial(case, obs):
    if obs.get('spec_rejected') or not case['spec']['ports']:
        return False
    s = json.dumps(case)
    return obs['raised'] or '"val"' in s or '"call"' in s or (case['inputs'] and any(isinstance(v, dict) for v in case['inputs'].values()))


def distribution(cases, obs):
    d = {'accepted': 0, 'rejected': 0, 'spec_rejected_at_define': 0, 'with_defaults': 0, 'with_dynamic': 0,
         'with_validator': 0, 'nested_inputs': 0, 'out_of_domain': 0}
    for c, o in zip(cases, obs):
        if o.get('spec_rejected'):
            d['spec_rejected_at_define'] += 1
            continue
        d['rejected' if o['raised'] else 'accepted'] += 1
        s = json.dumps(c['spec'])
        d['with_defaults'] += ('"val"' in s or '"call"' in s)
        d['with_dynamic'] += '"dyn": true' in s
        d['with_validator'] += '"vld": "' in s
        d['nested_inputs'] += bool(c['inputs'] and any(isinstance(v, dict) for v in c['inputs'].values()))
        d['out_of_domain'] += not in_domain(c)
    return d


# ------------------------------------------------------------ generators
SCALARS = [1, 3, 'a', True, None]
VALUES = SCALARS + [[1], {}, {'x': 1}, {'y': 'a'}, {'x': {'z': 3}}, {'__tuple__': []}, 0]


def leaf_variants():
    out = []
    for req in (True, False):
        for vt in (None, ['int'], ['str', 'none']):
            out.append(pg.leaf(req=req, vt=vt))
    out.append(pg.leaf(dflt=('val', 1)))
    out.append(pg.leaf(dflt=('call', 'a'), vt=['str']))
    out.append(pg.leaf(dflt=('val', 3), vld='rej_3', req=False))   # rejected by Python at define time
    out.append(pg.leaf(vld='rej_3'))
    out.append(pg.leaf(vld='rej_falsy', req=False))
    out.append(pg.leaf(dflt=('call', 3), vld='rej_3'))
    out.append(pg.leaf(dflt=('val', {'k': 1}), vt=['dict']))
    return out


def ns_variants(ports):
    out = []
    for req in (True, False):
        for dyn, vt in ((False, None), (True, None), (True, ['int']), (True, ['str', 'dict'])):
            for pop in (True, False):
                out.append(pg.ns(ports, req=req, dyn=dyn, vt=vt, pop=pop))
    out.append(pg.ns(ports, vld='rej_has_x', dyn=True))
    out.append(pg.ns(ports, vld='rej_falsy', req=False))
    out.append(pg.ns(ports, dflt=('val', {'x': 1}), dyn=True))
    out.append(pg.ns(ports, dflt=('val', {}), req=False))
    return out


def input_dicts(names, rng=None, n=None):
    """dictionaries over the given keys + one undeclared key"""
    keys = list(names) + ['u']
    out = [None, {}]
    for k in keys:
        for v in VALUES:
            out.append({k: v})
    if len(keys) >= 2:
        for v1 in (1, 'a', {'x': 1}, {}):
            for v2 in (3, None, {'y': 'a'}):
                out.append({keys[0]: v1, keys[1]: v2})
                out.append({keys[1]: v1, 'u': v2})
    return out


def rand_value(rng, depth=2):
    r = rng.random()
    if r < 0.6 or depth == 0:
        return rng.choice(SCALARS + [0, 3, [1], {'__tuple__': []}])
    return {rng.choice('xyzab'): rand_value(rng, depth - 1) for _ in range(rng.randint(0, 2))}


def rand_spec(rng, depth):
    ports = []
    names = rng.sample(['a', 'b', 'c', 'x', 'ab'], rng.randint(0, 3))
    for n in names:
        if depth > 0 and rng.random() < 0.4:
            sub = rand_spec(rng, depth - 1)
            ports.append((n, sub))
        else:
            ports.append((n, rng.choice(leaf_variants())))
    base = rng.choice(ns_variants([]))
    base = dict(base)
    base['ports'] = [[n, p] for n, p in ports]
    return base


def rand_inputs(rng, tree, depth=2):
    if rng.random() < 0.05:
        return None
    m = {}
    for n, p in tree['ports']:
        r = rng.random()
        if r < 0.35:
            continue
        if p['k'] == 'ns' and r < 0.85:
            m[n] = rand_inputs(rng, p) or {}
        elif p['k'] == 'ns':
            m[n] = rng.choice([1, None, True, 0])
        else:
            m[n] = rand_value(rng, 1)
    if rng.random() < 0.35:
        m[rng.choice(['u', 'v'])] = rand_value(rng, 2)
    return m


def generate(tier, rng, around=None):
    cases = []
    if tier == 'widen':
        cases += list(around or [])
        n_rand, exhaustive = 6000, False
    else:
        n_rand = 12000 if tier == 'thorough' else 2500
        exhaustive = True
        # level 1: a namespace with one or two leaf ports, every attribute variant, every small input dict
        lv = leaf_variants()
        for p in lv:
            for top in ns_variants([('a', p)]):
                if tier == 'quick' and top['pop'] is False and top['vt'] is not None:
                    continue
                for inp in input_dicts(['a']):
                    cases.append({'spec': top, 'inputs': inp})
        # level 2: nested namespace holding a leaf, every namespace variant at the inner level
        for p in (lv[0], lv[3], lv[6], lv[7], lv[11]):
            for inner in ns_variants([('x', p)]):
                top = pg.ns([('n', inner), ('b', pg.leaf(req=False))])
                for inp in ([None, {}, {'n': {}}, {'n': {'x': 1}}, {'n': {'x': 3}}, {'n': {'x': 'a'}}, {'n': {'u': 1}},
                             {'n': {'u': {'w': 'a'}}}, {'n': {'x': 1, 'u': {'w': {'v': 1}}}}, {'n': 1}, {'n': None},
                             {'n': 0}, {'b': 1}, {'n': {'x': 1}, 'b': 2}, {'u': 1}, {'n': {'x': {'__tuple__': []}}}]):
                    cases.append({'spec': top, 'inputs': inp})
    for _ in range(n_rand):
        spec = rand_spec(rng, 2)
        cases.append({'spec': spec, 'inputs': rand_inputs(rng, spec)})
    return {'cases': cases, 'exhaustive': exhaustive,
            'scope': 'one leaf port (13 attribute variants) in a namespace (20 attribute variants) x all single-key and selected two-key inputs over a 12-value domain; nested namespace (20 variants) x 16 inputs'}


def shrink_candidates(case):
    inp = case['inputs']
    if inp:
        for k in list(inp):
            d = dict(inp)
            del d[k]
            yield dict(case, inputs=d)
            if isinstance(inp[k], dict) and inp[k]:
                for kk in inp[k]:
                    d2 = dict(inp)
                    d2[k] = {a: b for a, b in inp[k].items() if a != kk}
                    yield dict(case, inputs=d2)
    spec = case['spec']
    for i in range(len(spec['ports'])):
        s2 = dict(spec, ports=spec['ports'][:i] + spec['ports'][i + 1:])
        yield dict(case, spec=s2)
