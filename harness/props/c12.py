"""C12 — outputs are stored only if valid; success requires spec-conforming outputs."""
import copy
import itertools
import json
import warnings

import coqio
import portgen as pg
import c11
from coqio import c_bool, c_str, c_list, c_val, c_nat

PROP = 'C12'
CORR_MODULE = 'PortModel Corr_Ports'
CASE_TYPE = 'C12_case'
MISMATCH_FN = 'c12_mismatches'
MODEL_FN = 'c12_model'
SHARD = 300
RULE = ('output spec tree x sequence of emitted (path, value) pairs x way the step ends; real Process executed; non-trivial = at least one '
        'emission was rejected or went to a nested/dynamic port, or the process finished unsuccessfully; distinct = distinct case')
ASSUMPTIONS = ['port path components non-empty', 'validators deterministic (family in harness/portgen.py)']


def to_coq(case, obs):
    ems = []
    for (path, v), e in zip(case['emissions'], obs['emissions']):
        ems.append('(mk_em %s %s %s %s %s)' % (c_str(path), c_val(v), c_nat(e['kind']), c_bool(bool(e['dyn'])), pg.c_kvs(e['outputs'])))
    return '(mk_c12 %s %s %s %s)' % (pg.c_port(case['spec']), c_list(ems), c_bool(case['end'] == 'ok'), c_bool(bool(obs['successful'])))


def run_impl(case):
    warnings.simplefilter('ignore')
    import asyncio
    import plumpy
    log = []

    def run(self):
        for path, v in case['emissions']:
            self._dyn = None
            try:
                self.out(path, pg.decode(v))
                kind = 0
            except ValueError:
                kind = 1
            except Exception as e:
                kind = 2
            log.append({'kind': kind, 'dyn': self._dyn if kind == 0 else False, 'outputs': pg.encode(copy.deepcopy(self.outputs))})
        if case['end'] == 'ok':
            return 42
        return plumpy.UnsuccessfulResult(7)

    klass = pg.make_process_class(outputs=case['spec'], extra={'run': run})
    loop = c11._loop()
    proc = klass(loop=loop)
    emitted = []

    class L(plumpy.ProcessListener):
        def on_output_emitted(self, process, output_port, value, dynamic):
            process._dyn = dynamic
            emitted.append([output_port, pg.encode(value), dynamic])
    listener = L()
    proc.add_process_listener(listener)
    try:
        fut_result = proc.execute()
    except Exception as e:
        fut_result = ['raised', type(e).__name__]
    obs = {'emissions': log, 'state': proc.state.value, 'listener': emitted,
           'outputs': pg.encode(proc.outputs), 'future': pg.encode(fut_result) if not isinstance(fut_result, list) else fut_result}
    if proc.state.value == 'finished':
        obs['successful'] = proc.successful()
        obs['result'] = proc.result()
    else:
        obs['successful'] = False
        obs['result'] = None
    return obs


# ------------------------------------------------------------ oracle
def accepts(spec, path, v):
    """Declarative reading: returns (verdict, dynamic) with verdict in 'ok' | 'value' | 'other'; mutates spec for
    namespaces created on the fly inside dynamic namespaces (documented behaviour of get_port(create_dynamically))."""
    comps = path.split('.')
    nsn, name = comps[:-1], comps[-1]
    target = spec
    for c in nsn:
        found = [p for n, p in target['ports'] if n == c]
        if found:
            target = found[0]
            if target['k'] != 'ns' and c != nsn[-1]:
                return 'other', False
        else:
            if not target['dyn']:
                return 'value', False            # ValueError: port does not exist
            new = pg.ns([], req=target['req'], vt=target['vt'], dflt=target['dflt'], vld=target['vld'], dyn=target['dyn'], pop=target['pop'])
            target['ports'].append([c, new])
            target = new
    if target['k'] != 'ns':
        return 'other', False
    found = [p for n, p in target['ports'] if n == name]
    if found:
        ok = c11.conforms(found[0], True, v)
        return ('ok' if ok else 'value'), False
    if not target['dyn']:
        return 'value', True
    if target['vt'] is not None:
        def dyn_ok(x):
            if c11.is_plain_dict(x):
                return all(dyn_ok(y) for y in x.values())
            return c11.isinst(x, target['vt'])
        if not dyn_ok(v):
            return 'value', True
    return 'ok', True


def insert(outs, path, v):
    comps = path.split('.')
    d = outs
    for c in comps[:-1]:
        d = d.setdefault(c, {})
        if not isinstance(d, dict) or set(d.keys()) == {'__tuple__'}:
            raise TypeError
    d[comps[-1]] = v


def oracle(case, obs):
    spec = copy.deepcopy(case['spec'])
    outs = {}
    accepted = []
    for (path, v), e in zip(case['emissions'], obs['emissions']):
        verdict, dyn = accepts(spec, path, v)
        new = copy.deepcopy(outs)
        if verdict == 'ok':
            try:
                insert(new, path, v)
            except TypeError:
                verdict = 'other'
                new = outs
        want = {'ok': 0, 'value': 1, 'other': 2}[verdict]
        if e['kind'] != want:
            sig = {(0, 1): 'invalid_output_stored', (0, 2): 'invalid_output_stored', (1, 0): 'valid_output_rejected',
                   (2, 0): 'valid_output_rejected'}.get((e['kind'], want), 'wrong_error_kind')
            return {'signature': sig, 'kind': 'emission', 'path': path, 'value': v, 'expected_kind': want, 'observed_kind': e['kind']}
        if want == 0:
            outs = new
            accepted.append([path, v, dyn])
        if e['outputs'] != outs:
            return {'signature': 'outputs_after_emission_differ', 'kind': 'outputs', 'path': path, 'expected': outs, 'observed': e['outputs']}
    if obs['listener'] != accepted:
        return {'signature': 'listener_report_differs', 'kind': 'listener', 'expected': accepted, 'observed': obs['listener']}
    if obs['state'] != 'finished':
        return {'signature': 'not_finished', 'kind': obs['state']}
    if obs['future'] != outs or obs['outputs'] != outs:
        return {'signature': 'future_differs_from_outputs', 'kind': 'future', 'expected': outs, 'observed': obs['future']}
    want_ok = case['end'] == 'ok' and c11.conforms(spec, True, outs)
    if bool(obs['successful']) != bool(want_ok):
        return {'signature': 'success_flag_wrong', 'kind': 'successful', 'expected': want_ok, 'observed': obs['successful']}
    if obs['result'] != (42 if case['end'] == 'ok' else 7):
        return {'signature': 'result_not_preserved', 'kind': 'result', 'observed': obs['result']}
    return None


def nontrivial(case, obs):
    return any(e['kind'] != 0 for e in obs['emissions']) or any('.' in p for p, _ in case['emissions']) \
        or any(e['dyn'] for e in obs['emissions']) or (case['end'] == 'ok' and not obs['successful'])


def distribution(cases, obs):
    d = {'emissions': 0, 'stored': 0, 'value_error': 0, 'other_error': 0, 'dynamic': 0, 'nested_path': 0,
         'successful': 0, 'unsuccessful_invalid_outputs': 0, 'unsuccessful_returned': 0}
    for c, o in zip(cases, obs):
        for (p, _), e in zip(c['emissions'], o['emissions']):
            d['emissions'] += 1
            d[['stored', 'value_error', 'other_error'][e['kind']]] += 1
            d['dynamic'] += bool(e['dyn'])
            d['nested_path'] += '.' in p
        if o['successful']:
            d['successful'] += 1
        elif c['end'] == 'ok':
            d['unsuccessful_invalid_outputs'] += 1
        else:
            d['unsuccessful_returned'] += 1
    return d


# ------------------------------------------------------------ generators
def out_specs():
    L = pg.leaf
    S = []
    S.append(pg.ns([('a', L()), ('b', L(req=False, vt=['int']))]))
    S.append(pg.ns([('a', L(vt=['str'], vld='rej_falsy')), ('n', pg.ns([('x', L(vt=['int'], vld='rej_3')), ('y', L(req=False))]))]))
    S.append(pg.ns([('a', L(req=False))], dyn=True))
    S.append(pg.ns([('d', pg.ns([], vt=['int'], req=False)), ('e', pg.ns([('x', L(req=False))], dyn=True, vld='rej_has_x'))]))
    S.append(pg.ns([], vt=['int', 'str']))
    S.append(pg.ns([('n', pg.ns([('m', pg.ns([('x', L())]))], req=False))]))
    S.append(pg.ns([('a', L(req=False))], vld='rej_has_x', dyn=True))
    return S


PATHS = ['a', 'b', 'n.x', 'n.y', 'u', 'd.k', 'd.k.j', 'e.x', 'e.u', 'n.m.x', 'a.z', 'x', 'n', 'e']
VALS = [1, 3, 'a', '', None, {'x': 1}, {}, {'k': 'a'}, True, {'__tuple__': []}]


def generate(tier, rng, around=None):
    cases = []
    if tier == 'widen':
        cases += list(around or [])
    specs = out_specs()
    if tier != 'widen':
        # every single emission, every pair for a reduced domain
        for s in specs:
            for p in PATHS:
                for v in VALS:
                    for end in (('ok', 'fail') if v in (1, 'a') else ('ok',)):
                        cases.append({'spec': s, 'emissions': [[p, v]], 'end': end})
            cases.append({'spec': s, 'emissions': [], 'end': 'ok'})
            cases.append({'spec': s, 'emissions': [], 'end': 'fail'})
            pairs = list(itertools.product(['a', 'n.x', 'u', 'd.k', 'a.z', 'n'], [1, 'a', {'x': 1}]))
            for e1, e2 in itertools.product(pairs, pairs):
                if tier == 'quick' and rng.random() < 0.6:
                    continue
                cases.append({'spec': s, 'emissions': [list(e1), list(e2)], 'end': 'ok'})
    n_rand = {'quick': 600, 'thorough': 6000, 'widen': 4000}[tier]
    for _ in range(n_rand):
        s = rng.choice(specs)
        ems = [[rng.choice(PATHS), rng.choice(VALS)] for _ in range(rng.randint(1, 4))]
        cases.append({'spec': s, 'emissions': ems, 'end': 'ok' if rng.random() < 0.8 else 'fail'})
    return {'cases': cases, 'exhaustive': tier != 'widen',
            'scope': '7 output specs x every single emission over 14 paths x 10 values; every pair over 6 paths x 3 values (sampled 40% in quick)'}


def shrink_candidates(case):
    e = case['emissions']
    for i in range(len(e)):
        yield dict(case, emissions=e[:i] + e[i + 1:])
    spec = case['spec']
    for i in range(len(spec['ports'])):
        yield dict(case, spec=dict(spec, ports=spec['ports'][:i] + spec['ports'][i + 1:]))
