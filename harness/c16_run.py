"""C16 helper: twin runs of one scripted program under two controlled schedulers.

R ("remote"): a process constructed with a real communicator (an in-process kiwipy.CommunicatorHelper subclass that
delivers broadcasts positionally, wrapped in plumpy.communications.LoopCommunicator); it is controlled through
RemoteProcessThreadController / RemoteProcessController and raw rpc_send / broadcast_send.
D ("direct"): the same class, same pid, own communicator nobody sends to; it receives the *documented* direct call
(pause(text) / play() / kill(text) / get_status_info) at the loop boundary where R's handler for the message runs.

The loop callbacks of R are classified by what they are (the asyncio handle is inspected before it is run):
  proc   a callback of the process itself: a step of step_until_terminated, a ProcessCallback.run task, try_killing
  recv   first step of communications.create_task.run_task: message_receive / broadcast_receive execute here
  call   first step of Process._schedule_rpc.run_callback: the scheduled pause / play / kill executes here
  plumb  everything else (thread-safe hand-over, future chaining, reply copying, controller coroutines)
D is ticked exactly when R ran a `proc` callback.  The sequence of model-level events (`xevents`) is recorded from
instrumentation points, not from the case, so that the Coq model is driven by what really happened."""
import asyncio
import json
import warnings

import kiwipy

import coqio
import life
import portgen
import sched
import scripted

PID = 'p1'
TOLERATED = ('closed', 'channel', 'timeout')


def failure_exception(kind):
    from aio_pika.exceptions import ChannelInvalidStateError, ConnectionClosed
    if kind == 'closed':
        return ConnectionClosed(320, 'closed by harness')
    if kind == 'channel':
        return ChannelInvalidStateError('invalid channel (harness)')
    if kind == 'timeout':
        return kiwipy.TimeoutError('timed out (harness)')
    if kind == 'commclosed':
        return kiwipy.CommunicatorClosed()
    return RuntimeError('broadcast failed (harness)')


class PosComm(kiwipy.CommunicatorHelper):
    """Synchronous in-process communicator; broadcasts are delivered positionally (comm, body, sender, subject,
    correlation_id) as the RabbitMQ communicator does."""

    def __init__(self, fails=None, xlog=None):
        super().__init__()
        self.fails = dict(fails or {})      # index of the process's announcement -> failure kind
        self.attempted = []                 # announcements the process tried to send: [subject, sender, body]
        self.xlog = xlog if xlog is not None else []
        self.sub_log = []                   # add/remove of subscribers: [op, kind, identifier]
        self.n_sends = 0
        self.trace = None                   # the process trace: the removals of the process's subscribers are events of it

    def add_rpc_subscriber(self, subscriber, identifier=None):
        r = super().add_rpc_subscriber(subscriber, identifier)
        self.sub_log.append(['add', 'rpc', r])
        return r

    def remove_rpc_subscriber(self, identifier):
        self.sub_log.append(['remove', 'rpc', identifier])
        if identifier == PID and self.trace is not None:
            self.trace.append(['cleanup', 1])
        return super().remove_rpc_subscriber(identifier)

    def add_broadcast_subscriber(self, subscriber, identifier=None):
        r = super().add_broadcast_subscriber(subscriber, identifier)
        self.sub_log.append(['add', 'broadcast', r])
        return r

    def remove_broadcast_subscriber(self, identifier):
        self.sub_log.append(['remove', 'broadcast', identifier])
        if identifier == PID and self.trace is not None:
            self.trace.append(['cleanup', 2])
        return super().remove_broadcast_subscriber(identifier)

    def task_send(self, task, no_reply=False):
        return self.fire_task(task, no_reply)

    def rpc_send(self, recipient_id, msg):
        self.xlog.append(['send_rpc', canon_msg(msg), recipient_id in self._rpc_subscribers])
        self.n_sends += 1
        return self.fire_rpc(recipient_id, msg)

    def broadcast_send(self, body, sender=None, subject=None, correlation_id=None):
        self._ensure_open()
        if isinstance(subject, str) and subject.startswith('state_changed') and sender == PID:
            k = len(self.attempted)
            self.attempted.append([subject, sender, body])
            if k in self.fails:
                raise failure_exception(self.fails[k])
        else:
            self.xlog.append(['send_bc', subject, canon_body(body), PID in self._broadcast_subscribers])
        for sub in list(self._broadcast_subscribers.values()):
            sub(self, body, sender, subject, correlation_id)
        return True


def canon_msg(msg):
    """an RPC message body -> [intent, has_text_key, text]"""
    if not isinstance(msg, dict):
        return ['nodict']
    return [msg.get('intent'), 'message' in msg, msg.get('message')]


def canon_body(body):
    if body is None:
        return None
    if isinstance(body, dict):
        return ['dict', 'message' in body, body.get('message')]
    return ['other']


class SendTag:
    """communicator proxy handed to one controller call: notes the index of the send it makes (if it makes one)"""

    def __init__(self, comm, base, box):
        self._comm, self._base, self._box = comm, base, box

    def rpc_send(self, recipient_id, msg):
        self._box.append(self._base.n_sends)
        return self._comm.rpc_send(recipient_id, msg)

    def broadcast_send(self, *a, **kw):
        return self._comm.broadcast_send(*a, **kw)


class C16Mixin:
    """Records where the communication handlers run and what the scheduled calls do."""

    def _c16(self):
        return self.__dict__['_c16_h']

    def message_receive(self, _comm, msg):
        self._c16()['xlog'].append(['recv_rpc', canon_msg(msg)])
        return super().message_receive(_comm, msg)

    def broadcast_receive(self, _comm, msg, sender, subject, correlation_id):
        self._c16()['xlog'].append(['recv_bc', subject, canon_body(msg)])
        return super().broadcast_receive(_comm, msg, sender, subject, correlation_id)

    def _c16_call(self, c, fn):
        h = self._c16()
        if not h['in_handler']:
            return fn()
        h['in_handler'] = False          # only the outermost call is the handler's
        pos = len(self._sc_trace)        # same record as scripted.observed_ctl makes for a direct call
        try:
            r = fn()
        except Exception as e:
            h['calls'].append(c)
            self._sc_trace.append(['ctl', c, ['raised', coqio.canon_exception(e)], pos])
            raise
        h['calls'].append(c)
        self._sc_trace.append(['ctl', c, scripted.canon_ctl_ret(r, self._sc_actions), pos])
        return r

    def pause(self, msg_text=None):
        return self._c16_call(['pause', msg_text], lambda: super(C16Mixin, self).pause(msg_text))

    def play(self):
        return self._c16_call(['play'], lambda: super(C16Mixin, self).play())

    def kill(self, msg_text=None):
        return self._c16_call(['kill', msg_text], lambda: super(C16Mixin, self).kill(msg_text))


_N = [0]


def fresh_class():
    _N[0] += 1
    return type('C16Process_%d' % _N[0], (C16Mixin, scripted.ScriptedProcess), {})


def task_kind(t):
    q = t.get_coro().__qualname__ if t.get_coro() is not None else ''
    return 'proc' if (q.endswith('step_until_terminated') or q.startswith('ProcessCallback.')) else 'plumb'


def classify(h):
    cb = h._callback
    s = getattr(cb, '__self__', None)
    if isinstance(s, asyncio.Task):
        q = s.get_coro().__qualname__
        first = type(cb).__name__ == 'TaskStepMethWrapper'
        if q.endswith('step_until_terminated') or q.startswith('ProcessCallback.'):
            return 'proc'
        if q.endswith('run_task'):
            return 'recv' if first else 'plumb'
        if q.endswith('run_callback'):
            return 'call' if first else 'plumb'
        return 'plumb'
    q = getattr(cb, '__qualname__', '')
    if q.endswith('try_killing'):
        return 'proc'
    return 'plumb'


class Side:
    """one process on its own loop and communicator"""

    def __init__(self, case, klass, fails, xlog, comm_class=None):
        from plumpy import communications
        self.sc = sched.Sched()
        self.trace, self.actions = [], []
        self.base = (comm_class or PosComm)(fails, xlog)
        self.base.trace = self.trace
        self.recorded = []
        self.base.add_broadcast_subscriber(
            lambda comm, body, sender, subject, cid: self.recorded.append([subject, sender, body]), 'recorder')
        self.comm = communications.LoopCommunicator(self.base, self.sc.loop)
        self.h = {'xlog': xlog, 'in_handler': False, 'calls': []}
        scripted.CURRENT.update(cfg=case, trace=self.trace, actions=self.actions)
        self.proc = None
        self.constructor_raised = None
        self.activate()
        try:
            # StateMachineMeta.__call__ does: __init__, transition_to(initial state), init()
            self.proc = _construct(klass, self.h, loop=self.sc.loop, communicator=self.comm, pid=PID)
        except Exception as e:
            self.constructor_raised = coqio.canon_exception(e)
            return
        self.proc.add_process_listener(scripted.ScriptedListener(case, self.trace, self.actions))
        self.proc.add_cleanup(lambda: self.trace.append(['cleanup', 0]))
        self.t0 = self.sc.loop.create_task(self.proc.step_until_terminated())

    def activate(self):
        asyncio.set_event_loop(self.sc.loop)
        ACTIVE[0] = self

    def flush(self):
        """failures reported to the loop by the process's own tasks / callbacks (not by the communication plumbing or
        the controller coroutines, whose failures are replies)"""
        sc = self.sc
        out = []
        for ctx in sc.loop_errors:
            e = ctx.get('exception')
            t = ctx.get('task') or ctx.get('future')
            if e is not None and (not isinstance(t, asyncio.Task) or task_kind(t) == 'proc'):
                out.append(e)
        sc.loop_errors[:] = []
        for t in list(sc.tasks):
            if t.done():
                sc.tasks.remove(t)
                if not t.cancelled() and t.exception() is not None and task_kind(t) == 'proc':
                    out.append(t.exception())
        for e in out:
            self.trace.append(['loop_error', coqio.canon_exception(e)])

    def observe(self, tag=''):
        o = life.observe(self.proc, self.t0, self.sc, self.actions, tag, len(self.trace))
        o['ready'] = sum(1 for h in self.sc.ready() if classify(h) == 'proc')
        return o

    def subscribed(self):
        return [PID in self.base._rpc_subscribers, PID in self.base._broadcast_subscribers]

    def close(self):
        if self.proc is not None:
            for f in self.proc._sc_ext.values():
                if f.done() and not f.cancelled():
                    f.exception()
        self.sc.close()


ACTIVE = [None]


def _construct(klass, h, **kw):
    """klass(**kw) with the recording slot installed before __init__ runs (init() subscribes the bound handlers)."""
    orig = klass.__init__

    def init(self, *a, **k):
        self.__dict__['_c16_h'] = h
        orig(self, *a, **k)
    klass.__init__ = init
    try:
        return klass(**kw)
    finally:
        klass.__init__ = orig


def expected_call(kind, msg):
    """the documented dispatch (the oracle's own table): which direct call a received message stands for"""
    if kind == 'rpc':
        intent, _has, text = msg
        if intent == 'play':
            return ['play']
        if intent == 'pause':
            return ['pause', text]
        if intent == 'kill':
            return ['kill', text]
        if intent == 'status':
            return ['status']
        return ['error']
    subject, body = msg
    if subject == 'play':
        return ['play']
    if subject in ('pause', 'kill'):
        if body is None or body[0] != 'dict':
            return ['error']
        return [subject, body[2]]
    return ['ignored']


def reply_of_future(f):
    """canonical reply of an RPC made through the thread controller: unwrap the nested kiwi futures"""
    depth = 0
    while True:
        if not f.done():
            return ['pending']
        if f.cancelled():
            return ['cancelled']
        e = f.exception()
        if e is not None:
            return ['err', type(e).__name__]
        r = f.result()
        if isinstance(r, (kiwipy.Future, asyncio.Future)):
            f = r
            depth += 1
            continue
        return canon_reply_value(r)


def canon_reply_value(r):
    if isinstance(r, dict) and 'state' in r:
        return ['status', bool(r.get('paused')), str(r.get('state')), str(r.get('process_string'))]
    if r is True or r is False:
        return ['val', r]
    return ['other', repr(r)]


def reply_of_task(t):
    if not t.done():
        return ['pending']
    if t.cancelled():
        return ['cancelled']
    e = t.exception()
    if e is not None:
        if isinstance(e, kiwipy.UnroutableError):
            return ['unroutable']
        return ['err', type(e).__name__]
    r = t.result()
    if isinstance(r, (kiwipy.Future, asyncio.Future)):
        # the coroutine controller awaits a fixed number of levels; how deeply the reply is nested depends on the
        # communicator (the in-process stand-in nests one level more than it assumes): follow the rest here
        return reply_of_future(r)
    return canon_reply_value(r)


def direct_reply(ret, actions):
    """what a direct call's outcome says, in reply terms"""
    if ret[0] == 'bool':
        return ['val', ret[1]]
    if ret[0] == 'action':
        s = life.fut_status(actions[ret[1]])
        if s[0] == 'val':
            return ['val', bool(s[1])]
        if s[0] == 'exn':
            return ['err', 'RuntimeError']
        return [s[0]]
    if ret[0] == 'raised':
        return ['err', 'RuntimeError']
    return ['other', repr(ret)]


def norm_trace(trace):
    """the record of a control call: call and outcome (bookkeeping fields added by the shared harness are dropped)"""
    return [e[:3] if e[0] == 'ctl' else e for e in trace]


class RpcRegistrationTimesOut(PosComm):
    """the broker does not answer in time when the process registers as an RPC subscriber (a tolerated failure)"""

    def add_rpc_subscriber(self, subscriber, identifier=None):
        if identifier == PID:
            raise kiwipy.TimeoutError('timed out (harness)')
        return super().add_rpc_subscriber(subscriber, identifier)


_PROBE = {}


def registration_fault_probe(case):
    """Implementation-only probe (no model term): after a time-out of the RPC registration the broadcast control path
    still works — pause_all pauses a live process, kill_all kills it.  Cached per program."""
    key = json.dumps([case.get('prog'), case.get('listeners')], sort_keys=True)
    if key in _PROBE:
        return _PROBE[key]
    from plumpy import process_comms
    side = None
    out = {'ran': False}
    try:
        side = Side(dict(case, events=[]), fresh_class(), {}, [], comm_class=RpcRegistrationTimesOut)
        if side.proc is not None:
            def drain():
                side.activate()
                for _ in range(60):
                    if not side.sc.tick():
                        break
                side.flush()
            tctrl = process_comms.RemoteProcessThreadController(side.comm)
            side.activate()
            sub0 = side.subscribed()
            side.sc.tick()
            live0 = not side.proc.has_terminated()
            tctrl.pause_all('probe')
            drain()
            live1 = not side.proc.has_terminated()
            paused = bool(side.proc.paused or side.proc._pausing is not None)      # in effect, or pending while a step is in flight
            tctrl.kill_all('probe')
            drain()
            out = {'ran': True, 'subscribed': sub0, 'live_before_pause': live0, 'live_after_pause': live1, 'paused': paused,
                   'final': 'killing' if side.proc._killing is not None else side.proc.state.value}
    except Exception as e:  # noqa
        out = {'ran': True, 'error': repr(e)[:200]}
    finally:
        if side is not None:
            side.close()
    _PROBE[key] = out
    return out


def run_twin(case):
    warnings.simplefilter('ignore')
    from plumpy import futures as pf, process_comms
    orig_init = pf.CancellableAction.__init__

    def tracking_init(self, *a, **kw):
        orig_init(self, *a, **kw)
        ACTIVE[0].actions.append(self)
    pf.CancellableAction.__init__ = tracking_init
    R = D = None
    try:
        klass = fresh_class()
        xlog = []
        fails = {int(k): v for k, v in (case.get('bfail') or [])}
        R = Side(case, klass, fails, xlog)
        D = Side(case, klass, {}, [])
        if R.proc is None or D.proc is None:
            return {'constructor_raised': [R.constructor_raised, D.constructor_raised], 'xevents': [], 'R': None, 'D': None,
                    'attempted': R.base.attempted, 'delivered': R.recorded, 'diverged': None, 'replies': [], 'direct_replies': []}
        tctrl = process_comms.RemoteProcessThreadController(R.comm)
        inflight_slots = []    # d_replies slots of the RPC messages accepted by the communicator and not yet received
        xevents = []           # model-level events with the sample of R after each
        replies = []           # per RPC: the handle from which its reply is read at the end
        pending_expected = []  # expected direct calls of the messages whose handler has not run yet (FIFO)
        d_replies = []         # what the direct twin answered, per received rpc message in order of reception
        wire = []              # per controller call: [documented message, message the communicator was handed]
        sent_log = []          # every message handed to the communicator, in order
        diverged = []

        def sample(side):
            p = side.proc
            return [p.state.value, p.paused, p.status]

        def compare(tag):
            a, b = R.observe(), D.observe()
            for k in ('state', 'future', 'paused', 'status', 't0', 'actions', 'killing', 'closed', 'accessors', 'ready', 'pos'):
                if a[k] != b[k] and not diverged:
                    diverged.append({'at': len(xevents), 'event': tag, 'field': k, 'remote': a[k], 'direct': b[k]})

        def process_xlog():
            """turn what the instrumentation recorded during the last operation into model events + twin actions"""
            while xlog:
                e = xlog.pop(0)
                if e[0] in ('send_rpc', 'send_bc'):
                    sent_log.append(['rpc', e[1]] if e[0] == 'send_rpc' else ['bc', e[1], e[2]])
                if e[0] == 'send_rpc':
                    xevents.append(['send_rpc', e[1], sample(R), e[2], R.proc._closed])
                    if e[2]:
                        d_replies.append(None)
                        inflight_slots.append(len(d_replies) - 1)
                    else:
                        d_replies.append(['unroutable'])
                elif e[0] == 'send_bc':
                    xevents.append(['send_bc', e[1], e[2], sample(R), e[3], R.proc._closed])
                elif e[0] == 'recv_rpc':
                    want = expected_call('rpc', e[1])
                    slot = inflight_slots.pop(0)
                    if want == ['status']:
                        D.activate()
                        info = {}
                        D.proc.get_status_info(info)
                        d_replies[slot] = canon_reply_value(info)
                    elif want == ['error']:
                        d_replies[slot] = ['err', 'RuntimeError']
                    else:
                        pending_expected.append((slot, want))   # filled when the handler runs
                    xevents.append(['recv_rpc', sample(R)])
                elif e[0] == 'recv_bc':
                    want = expected_call('bc', (e[1], e[2]))
                    if want not in (['ignored'], ['error']):
                        pending_expected.append((None, want))
                    xevents.append(['recv_bc', sample(R)])

        def tick():
            R.activate()
            ready = R.sc.ready()
            if not ready:
                return False
            kind = classify(ready[0])
            live_before = not R.proc.has_terminated()
            R.h['in_handler'] = (kind == 'call')
            n_calls = len(R.h['calls'])
            R.sc.tick()
            R.h['in_handler'] = False
            R.flush()
            if kind == 'proc':
                D.activate()
                D.sc.tick()
                D.flush()
                xevents.append(['tick', sample(R)])
            elif kind == 'call':
                if pending_expected:
                    slot, want = pending_expected.pop(0)
                    D.activate()
                    ret = scripted.observed_ctl(D.proc, want, D.trace, D.actions)
                    D.flush()
                    if slot is not None:
                        d_replies[slot] = ('ctl', ret)
                else:
                    diverged.append({'at': len(xevents), 'event': 'call', 'field': 'unexpected_handler',
                                     'remote': R.h['calls'][n_calls:], 'direct': None})
                if len(R.h['calls']) != n_calls + 1 and not diverged:
                    diverged.append({'at': len(xevents), 'event': 'call', 'field': 'handler_made_no_single_call',
                                     'remote': R.h['calls'][n_calls:], 'direct': None})
                xevents.append(['run_rpc', sample(R), live_before])
            process_xlog()
            compare(kind)
            return True

        compare('start')
        for ev in case['events']:
            k = ev[0]
            if k == 'tick':
                tick()
                continue
            if k == 'drain':
                for _ in range(ev[1]):
                    if not tick():
                        break
                continue
            R.activate()
            box = []
            n_sent = len(sent_log) + len(xlog)
            if k in ('rpc', 'arpc'):
                wire.append([['rpc', [ev[1], True, ev[2] if len(ev) > 2 else None]], box])
            elif k == 'all':
                wire.append([['bc', ev[1], None if ev[1] == 'play' else ['dict', True, ev[2]]], ('at', n_sent)])
            if k == 'rpc':            # through RemoteProcessThreadController
                tctrl = process_comms.RemoteProcessThreadController(SendTag(R.comm, R.base, box))
                try:
                    if ev[1] == 'pause':
                        f = tctrl.pause_process(PID, ev[2])
                    elif ev[1] == 'play':
                        f = tctrl.play_process(PID)
                    elif ev[1] == 'kill':
                        f = tctrl.kill_process(PID, ev[2])
                    elif ev[1] == 'status':
                        f = tctrl.get_status(PID)
                    else:
                        raise ValueError(ev)
                    replies.append(('future', f, box))
                except kiwipy.UnroutableError:
                    replies.append(('const', ['unroutable'], box))
            elif k == 'arpc':         # through the coroutine controller, as a task on R's loop
                actrl = process_comms.RemoteProcessController(SendTag(R.comm, R.base, box))
                coro = {'pause': lambda: actrl.pause_process(PID, ev[2]), 'play': lambda: actrl.play_process(PID),
                        'kill': lambda: actrl.kill_process(PID, ev[2]), 'status': lambda: actrl.get_status(PID)}[ev[1]]()
                replies.append(('task', R.sc.loop.create_task(coro), box))
            elif k == 'raw':          # a hand-made RPC body
                box.append(R.base.n_sends)
                try:
                    replies.append(('future', R.comm.rpc_send(PID, ev[1]), box))
                except kiwipy.UnroutableError:
                    replies.append(('const', ['unroutable'], box))
            elif k == 'all':          # pause_all / play_all / kill_all
                if ev[1] == 'pause':
                    tctrl.pause_all(ev[2])
                elif ev[1] == 'play':
                    tctrl.play_all()
                else:
                    tctrl.kill_all(ev[2])
            elif k == 'bc':           # a hand-made broadcast: subject, body, sender
                R.comm.broadcast_send(ev[2], sender=ev[3] if len(ev) > 3 else None, subject=ev[1])
            else:                     # a direct event on both twins
                for side in (R, D):
                    side.activate()
                    p = side.proc
                    if k == 'ctl':
                        scripted.observed_ctl(p, ev[1], side.trace, side.actions)
                    elif k == 'cancel':
                        p.future().cancel()
                    elif k == 'late':
                        p.call_soon(p._sc_callback(ev[1]))
                    elif k == 'ext':
                        f = p._sc_future(ev[1])
                        if not f.done():
                            if ev[2][0] == 'val':
                                f.set_result(portgen.decode(ev[2][1]))
                            else:
                                f.set_exception(scripted.UserError(ev[2][1]))
                    else:
                        raise ValueError(ev)
                    side.flush()
                xevents.append(['base', ev, sample(R)])
            R.flush()
            process_xlog()
            compare(k)
        # replies, in the order in which the messages were sent
        out_replies = []
        replies = sorted([r for r in replies if r[2]], key=lambda r: r[2][0])
        for kind, h, _box in replies:
            if kind == 'const':
                out_replies.append(h)
            elif kind == 'future':
                out_replies.append(reply_of_future(h))
            else:
                out_replies.append(reply_of_task(h))
        rpc_sent = [m for m in sent_log if m[0] == 'rpc']
        wire_out = []
        for want, where in wire:
            if isinstance(where, tuple):
                seen = sent_log[where[1]] if where[1] < len(sent_log) else None
            else:
                seen = rpc_sent[where[0]] if where and where[0] < len(rpc_sent) else None
                if not where:
                    continue            # the coroutine controller never got to run
            wire_out.append([want, seen])
        direct = []
        for r in d_replies:
            if isinstance(r, tuple):
                direct.append(direct_reply(r[1], D.actions))
            elif r is None:
                direct.append(['pending'])        # the handler never ran
            else:
                direct.append(r)
        for kind, h, _box in replies:
            if kind == 'task' and h.done() and not h.cancelled():
                h.exception()
        return {
            'constructor_raised': None,
            'xevents': xevents,
            'R': {'trace': norm_trace(R.trace), 'final': R.observe('final'), 'subscribed': R.subscribed(), 'sub_log': R.base.sub_log},
            'D': {'trace': norm_trace(D.trace), 'final': D.observe('final'), 'subscribed': D.subscribed(), 'sub_log': D.base.sub_log,
                  'attempted': D.base.attempted},
            'attempted': R.base.attempted, 'delivered': [r for r in R.recorded if r[1] == PID],
            'quiescent': not R.sc.ready() and not D.sc.ready(),
            'replies': out_replies, 'direct_replies': direct, 'wire': wire_out, 'never_ran': [w for _s, w in pending_expected],
            'diverged': diverged[0] if diverged else None,
        }
    finally:
        pf.CancellableAction.__init__ = orig_init
        for s in (R, D):
            if s is not None:
                try:
                    s.close()
                except Exception:
                    pass
