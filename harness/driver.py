"""Generic check driver: build, proof status, correspondence, oracle, verdict, evidence (DESIGN §6)."""
import argparse
import fcntl
import hashlib
import json
import os
import random
import re
import subprocess
import sys
import time

ROOT = os.path.dirname(os.path.dirname(os.path.abspath(__file__)))
sys.path.insert(0, os.environ.get('PLUMPY_SRC', '/repo/src'))
sys.path.insert(0, os.path.join(ROOT, 'harness'))
os.environ.setdefault('PYTHONHASHSEED', '0')

import coqio  # noqa: E402

COQ = coqio.COQ
BUILD = coqio.BUILD
KNOWN = os.path.join(ROOT, 'KNOWN_FINDINGS.txt')
TRUSTED_BASE = [
    'Coq 8.16.1 kernel incl. the vm_compute machine (no native_compute)',
    'hand-written Gallina model of the plumpy code named in DESIGN.md section 3 (validated by the correspondence run, not verified)',
    'Section hypotheses on user code: deterministic total functions of their arguments',
    'harness: controlled asyncio scheduler, Python->Gallina term printer, coqc output parser, per-property oracle',
    'CPython 3.12 / asyncio / kiwipy semantics as listed in DESIGN.md section 7',
]


# ------------------------------------------------------------------ build
def _unser(o):
    """observations may hold arbitrary objects when the implementation misbehaves: print them, never crash on them"""
    return '<%s %s>' % (type(o).__name__, repr(o)[:80])


def _safe(f):
    try:
        return f()
    except Exception as e:  # noqa: BLE001
        return {'unavailable': repr(e)[:200]}


def sh(cmd, timeout, cwd=None):
    try:
        p = subprocess.run(cmd, shell=isinstance(cmd, str), capture_output=True, text=True, timeout=timeout, cwd=cwd)
        return p.returncode, p.stdout + p.stderr
    except subprocess.TimeoutExpired as e:
        return 124, 'timeout after %ss: %s' % (timeout, e)


def dep_closure(target_v):
    """All .v files (relative to coq/) the given .v file depends on, from coqdep's .Makefile.d."""
    deps = {}
    path = os.path.join(COQ, '.Makefile.d')
    if not os.path.exists(path):
        return set()
    for line in open(path):
        if ':' not in line:
            continue
        lhs, rhs = line.split(':', 1)
        tgt = [t for t in lhs.split() if t.endswith('.vo')]
        if not tgt:
            continue
        deps[tgt[0][:-1]] = [d[:-1] for d in rhs.split() if d.endswith('.vo')]
    seen, todo = set(), [target_v]
    while todo:
        x = todo.pop()
        if x in seen:
            continue
        seen.add(x)
        todo += deps.get(x, [])
    return seen


def ensure_makefile():
    """(Re)generate _CoqProject and the Makefile when the set of .v files changed."""
    files = []
    for d in coqio.QDIRS:
        dd = os.path.join(COQ, d)
        if os.path.isdir(dd):
            files += sorted('%s/%s' % (d, f) for f in os.listdir(dd) if f.endswith('.v'))
    want = ''.join('-Q %s Plumpy\n' % d for d in coqio.QDIRS) + '\n'.join(files) + '\n'
    cp = os.path.join(COQ, '_CoqProject')
    if not os.path.exists(cp) or open(cp).read() != want or not os.path.exists(os.path.join(COQ, 'Makefile')):
        open(cp, 'w').write(want)
        sh('coq_makefile -f _CoqProject -o Makefile', 120, cwd=COQ)


def build(prop, corr_file=None):
    """Regenerate facts, run make.  Returns dict(ok, proof_broken, corr_broken, log, obligations, discharged, axioms)."""
    os.makedirs(BUILD, exist_ok=True)
    res = {'proof_broken': None, 'corr_broken': None, 'log': ''}
    with open(os.path.join(BUILD, '.lock'), 'w') as lock:
        fcntl.flock(lock, fcntl.LOCK_EX)
        import facts
        try:
            facts.regenerate()
        except Exception as e:  # facts extraction itself failed: the tables the proofs rest on are gone
            res['log'] += 'facts extraction failed: %r\n' % (e,)
            res['proof_broken'] = 'Gen/Facts.v (extraction failed: %r)' % (e,)
        ensure_makefile()
        rc, out = sh('timeout 2400 make -k -j16 COQC="timeout 1500 coqc" 2>&1 | tail -n 200', 2500, cwd=COQ)
        res['log'] += out
    props_v = 'Props/%s.v' % prop
    corr_v = corr_file or 'Corr/Corr_%s.v' % prop
    failed = set(re.findall(r'File "\./([^"]+\.v)"', res['log'])) if ('Error' in res['log']) else set()
    for tgt, key in ((props_v, 'proof_broken'), (corr_v, 'corr_broken')):
        vo = os.path.join(COQ, tgt + 'o')
        if not os.path.exists(os.path.join(COQ, tgt)):
            continue
        stale = (not os.path.exists(vo)) or os.path.getmtime(vo) < os.path.getmtime(os.path.join(COQ, tgt))
        bad = sorted(failed & dep_closure(tgt))
        if stale or bad:
            msg = _first_error(res['log'], bad) if bad else 'not built'
            res[key] = res[key] or '%s: %s' % (', '.join(bad) or tgt, msg)
    # theorem census of the property file + Print Assumptions
    res.update(proof_census(prop, res['proof_broken'] is None))
    return res


def _first_error(log, files):
    for f in files:
        m = re.search(r'File "\./%s", line (\d+).*?\n(Error:.*?)(?:\n\S|\Z)' % re.escape(f), log, re.S)
        if m:
            return 'line %s: %s' % (m.group(1), ' '.join(m.group(2).split())[:300])
    return 'build error'


def proof_census(prop, built):
    path = os.path.join(COQ, 'Props', '%s.v' % prop)
    out = {'obligations': 0, 'discharged': 0, 'axioms': {}, 'theorems': []}
    if not os.path.exists(path):
        return out
    src = open(path).read()
    src_nc = re.sub(r'\(\*.*?\*\)', '', src, flags=re.S)
    thms = re.findall(r'^\s*(?:Theorem|Corollary|Lemma)\s+([A-Za-z0-9_\']+)', src_nc, re.M)
    out['theorems'] = thms
    out['obligations'] = len(thms)
    if not built:
        return out
    rc, log = sh(['coqc'] + coqio.qflags() + [path], 600)
    if rc != 0:
        out['recheck_error'] = log[-1500:]
        return out
    # Print Assumptions output: either "Closed under the global context" or "Axioms:\n name : type ..."
    chunks = re.split(r'(Closed under the global context|Axioms:)', log)
    results = []
    i = 1
    while i < len(chunks):
        if chunks[i].startswith('Closed'):
            results.append([])
        else:
            body = chunks[i + 1] if i + 1 < len(chunks) else ''
            results.append(re.findall(r'^([A-Za-z0-9_\.\']+)\s*:', body, re.M))
        i += 2
    for k, t in enumerate(thms):
        out['axioms'][t] = results[k] if k < len(results) else ['<no Print Assumptions output>']
    out['discharged'] = len(thms) if len(results) >= len(thms) else len(results)
    return out


ALLOWED_AXIOMS = {
    'functional_extensionality_dep', 'proof_irrelevance', 'classic', 'JMeq_eq', 'Eq_rect_eq.eq_rect_eq',
    'FunctionalExtensionality.functional_extensionality_dep', 'ProofIrrelevance.proof_irrelevance',
    'Classical_Prop.classic', 'JMeq.JMeq_eq',
}


# ------------------------------------------------------------------ known findings
def load_known(prop):
    opens, fixed = [], []
    if os.path.exists(KNOWN):
        for line in open(KNOWN):
            line = line.strip()
            if not line or line.startswith('#'):
                continue
            if line.startswith('open:') and ('property=%s ' % prop) in line:
                d = dict(re.findall(r'(\w+)=(\S+)', line.split('what=')[0]))
                d['what'] = line.split('what=', 1)[1] if 'what=' in line else ''
                opens.append(d)
            elif line.startswith('fixed:') and ('property=%s ' % prop) in line:
                fixed.append(line)
    return opens, fixed


# ------------------------------------------------------------------ main
def run_check(mod):
    ap = argparse.ArgumentParser()
    ap.add_argument('prop')
    ap.add_argument('--tier', default=os.environ.get('VERIF_TIER', 'quick'))
    ap.add_argument('--replay')
    ap.add_argument('--no-build', action='store_true')
    args = ap.parse_args()
    prop = mod.PROP
    seed = int(os.environ.get('VERIF_SEED', '0'))
    t0 = time.time()

    if args.replay:
        return replay(mod, args.replay)

    tier = 'thorough' if args.tier == 'thorough' else 'quick'
    b = build(prop, getattr(mod, 'CORR_FILE', None)) if not args.no_build else dict(proof_broken=None, corr_broken=None, log='', **proof_census(prop, True))
    bad_axioms = {t: [a for a in ax if a.split('.')[-1] not in {x.split('.')[-1] for x in ALLOWED_AXIOMS}]
                  for t, ax in b['axioms'].items()}
    bad_axioms = {t: a for t, a in bad_axioms.items() if a}
    if bad_axioms and not b['proof_broken']:
        b['proof_broken'] = 'Print Assumptions reports non-allow-listed axioms: %r' % bad_axioms
    if b['obligations'] and b['discharged'] < b['obligations'] and not b['proof_broken']:
        b['proof_broken'] = 'Props/%s.v: %d of %d theorems checked (%s)' % (
            prop, b['discharged'], b['obligations'], b.get('recheck_error', '')[-300:])
    # thorough tier: the independent checker re-checks the compiled property module and everything it loads, and lists every axiom
    b['coqchk'] = None
    if tier == 'thorough' and not b['proof_broken'] and os.path.exists(os.path.join(COQ, 'Props', '%s.vo' % prop)):
        rc, log = sh(['timeout', '2400', 'coqchk', '-o', '-silent'] + coqio.qflags() + ['Plumpy.%s' % prop], 2500)
        m = re.search(r'\* Axioms:(.*?)\n\s*\n\* Constants', log, re.S)
        axioms = [x.strip() for x in (m.group(1).splitlines() if m else []) if x.strip() and x.strip() != '<none>']
        b['coqchk'] = {'exit': rc, 'axioms': axioms, 'summary': ' '.join(log[-700:].split())[-500:]}
        bad = [x for x in axioms if x.split()[0].split('.')[-1] not in {a.split('.')[-1] for a in ALLOWED_AXIOMS}]
        if rc != 0:
            b['proof_broken'] = 'coqchk rejected Props/%s.vo (exit %s): %s' % (prop, rc, b['coqchk']['summary'][-200:])
        elif bad:
            b['proof_broken'] = 'coqchk -o lists non-allow-listed axioms: %r' % bad

    rng = random.Random(seed)
    opens, _fixed = load_known(prop)
    open_sigs = {o['signature']: o for o in opens}

    # 1. corpus (minimised earlier failures + replays of known findings) first, then generated cases
    cases = []
    cdir = os.path.join(ROOT, 'corpus')
    for f in sorted(os.listdir(cdir)):
        if f.startswith(prop + '-') and f.endswith('.json'):
            c = json.load(open(os.path.join(cdir, f)))
            c = c.get('case', c)
            c['_corpus'] = f
            cases.append(c)
    n_corpus = len(cases)
    gen = mod.generate(tier, rng)
    cases += gen['cases']

    # 2. run the implementation + oracle
    obs, oracle_fail, known_hits = [], [], {}
    for idx, c in enumerate(cases):
        try:
            o = mod.run_impl(c)
            f = mod.oracle(c, o)
        except Exception as e:      # the harness itself failed on this input: never silently, never as a crash of the check
            import traceback
            o = {'harness_error': repr(e)[:300], 'where': traceback.format_exc()[-800:], 'trace': [], 'final': None}
            f = {'signature': 'harness_error:%s' % type(e).__name__, 'kind': repr(e)[:200]}
        obs.append(o)
        if f is not None:
            sig = f.get('signature', 'unclassified')
            if sig in open_sigs:
                known_hits.setdefault(sig, []).append(idx)
            else:
                oracle_fail.append((idx, f))

    # 3. the model on the same cases, inside Coq
    mismatches, corr_errors = [], []
    if not b['corr_broken']:
        good, terms = [], []
        for i, o in enumerate(obs):
            if isinstance(o, dict) and 'harness_error' in o:
                continue
            try:
                terms.append(mod.to_coq(cases[i], o))
                good.append(i)
            except Exception as e:       # an observation the term printer cannot express: reported, never a crash
                if not any(j == i for j, _ in oracle_fail):
                    oracle_fail.append((i, {'signature': 'unprintable_observation:%s' % type(e).__name__, 'kind': repr(e)[:200]}))
        mismatches, corr_errors = coqio.run_cases(prop, mod.CORR_MODULE, mod.CASE_TYPE, getattr(mod, 'MISMATCH_FN', 'mismatches'), terms,
                                                  shard=getattr(mod, 'SHARD', 300))
        mismatches = [good[i] for i in mismatches]
    else:
        corr_errors = [{'file': 'Corr/Corr_%s.v' % prop, 'stderr': b['corr_broken']}]

    # 4. verdict
    violations = []
    os.makedirs(os.path.join(BUILD, 'replays'), exist_ok=True)

    def write_replay(payload):
        h = hashlib.sha1(json.dumps(payload, sort_keys=True, default=_unser).encode()).hexdigest()[:10]
        p = os.path.join(BUILD, 'replays', '%s-%s.json' % (prop, h))
        json.dump(payload, open(p, 'w'), indent=1, sort_keys=True, default=_unser)
        return p

    if oracle_fail:
        seen = set()
        for idx, f in oracle_fail:
            key = f.get('signature', '') + '|' + f.get('kind', '')
            if key in seen:
                continue
            seen.add(key)
            c = shrink(mod, cases[idx], f)
            o, f2 = run_and_judge(mod, c)
            f2 = f2 or f
            p = write_replay({'property': prop, 'case': strip(c), 'impl_observation': o, 'failure': f2})
            violations.append('VIOLATION property=%s replay=%s' % (prop, p))
    elif b['proof_broken'] or mismatches or corr_errors:
        # the property is no longer shown to hold: look harder for a failing input
        found = None
        wide = mod.generate('widen', random.Random(seed + 1), around=[cases[i] for i in mismatches[:20]])
        for c in wide['cases']:
            o, f = run_and_judge(mod, c)
            if f is not None and f.get('signature', 'unclassified') not in open_sigs:
                c = shrink(mod, c, f)
                o, f2 = run_and_judge(mod, c)
                found = write_replay({'property': prop, 'case': strip(c), 'impl_observation': o,
                                      'failure': f2 or f})
                break
        if found:
            violations.append('VIOLATION property=%s replay=%s' % (prop, found))
        else:
            payload = {'property': prop, 'no_failing_input_found': True}
            if b['proof_broken']:
                payload['theorem_or_obligation_that_no_longer_checks'] = b['proof_broken']
            if corr_errors:
                payload['correspondence_that_no_longer_checks'] = corr_errors[:3]
            if mismatches:
                i = mismatches[0]
                payload['correspondence'] = 'corr:%s model and implementation disagree on %d of %d cases' % (
                    prop, len(mismatches), len(cases))
                payload['case'] = strip(cases[i])
                payload['impl_observation'] = obs[i]
                payload['model_observation'] = coqio.eval_terms(prop, mod.CORR_MODULE,
                                                                ['%s %s' % (mod.MODEL_FN, mod.to_coq(cases[i], obs[i]))])[-3000:]
            p = write_replay(payload)
            violations.append('VIOLATION property=%s replay=%s no-failing-input-found' % (prop, p))

    # known findings: each listed one must still be reproduced by its replay (else the model/list is stale)
    known_lines = []
    for o in opens:
        known_lines.append('KNOWN-FINDING: property=%s %s (%s) %s' % (prop, o.get('id', ''), o['signature'], o['what']))

    # 5. evidence
    nontrivial = {}
    for c, o in zip(cases, obs):
        if mod.nontrivial(c, o):
            nontrivial[json.dumps(strip(c), sort_keys=True)] = 1
    ev = {
        'property_id': prop, 'tier': tier, 'seed': seed, 'level': 'proof',
        'wall_s': round(time.time() - t0, 2), 'violations': len(violations),
        'coverage': {
            'obligations': b['obligations'], 'discharged': b['discharged'],
            'checker_cmd': 'make -C coq (full .vo build incl. Props/%s.v with Print Assumptions) && coqc build/cases/%s/*.v (vm_compute correspondence)' % (prop, prop),
            'trusted_base': TRUSTED_BASE + getattr(mod, 'TRUSTED_EXTRA', []),
            'theorems': b['theorems'], 'axioms': b['axioms'], 'coqchk': b.get('coqchk'),
            'evaluations': len(cases), 'distinct_nontrivial': len(nontrivial),
            'traces_validated_against_impl': len(cases) - len(mismatches) if not corr_errors else 0,
            'model_impl_mismatches': len(mismatches), 'oracle_failures': len(oracle_fail),
            'corpus_cases': n_corpus,
            'rule': mod.RULE, 'exhaustive': bool(gen.get('exhaustive')), 'exhaustive_scope': gen.get('scope', ''),
            'distribution': _safe(lambda: mod.distribution(cases, obs)),
            'samples': [{'case': strip(c), 'impl_observation': o} for c, o in list(zip(cases, obs))[n_corpus:][:3]]
                       or [{'case': strip(c), 'impl_observation': o} for c, o in list(zip(cases, obs))[:3]],
            'known_findings_seen': {k: len(v) for k, v in known_hits.items()},
        },
        'assumptions': getattr(mod, 'ASSUMPTIONS', []),
    }
    os.makedirs(os.path.join(ROOT, 'evidence'), exist_ok=True)
    evpath = os.path.join(ROOT, 'evidence', '%s.json' % prop)
    json.dump(ev, open(evpath, 'w'), indent=1, sort_keys=True, default=_unser)
    validate_evidence(evpath)

    for l in known_lines:
        print(l)
    for v in violations:
        print(v)
    print('%s %s: %d cases (%d corpus), %d non-trivial, %d/%d theorems, %d model/impl mismatches, %d oracle failures, %.1fs'
          % (prop, tier, len(cases), n_corpus, len(nontrivial), b['discharged'], b['obligations'], len(mismatches),
             len(oracle_fail), time.time() - t0))
    return 1 if violations else 0


def strip(c):
    return {k: v for k, v in c.items() if not k.startswith('_')}


def shrink(mod, case, failure, budget=300):
    """Greedy shrinking: accept a smaller candidate while the oracle still fails with the same signature."""
    if not hasattr(mod, 'shrink_candidates'):
        return case
    sig = failure.get('signature')
    cur = case
    progress = True
    while progress and budget > 0:
        progress = False
        for cand in mod.shrink_candidates(cur):
            budget -= 1
            if budget <= 0:
                break
            try:
                f = mod.oracle(cand, mod.run_impl(cand))
            except Exception:
                continue
            if f is not None and f.get('signature') == sig:
                cur = cand
                progress = True
                break
    return cur


def run_and_judge(mod, c):
    """run the implementation on c and judge it; a failure of the harness itself is a failure of the check on that input"""
    try:
        o = mod.run_impl(c)
    except Exception as e:  # noqa: BLE001
        return {'harness_error': repr(e)[:300]}, {'signature': 'harness_error:run_impl', 'kind': type(e).__name__}
    try:
        return o, mod.oracle(c, o)
    except Exception as e:  # noqa: BLE001
        return o, {'signature': 'harness_error:oracle', 'kind': type(e).__name__}


def replay(mod, path):
    payload = json.load(open(path))
    if 'case' not in payload:
        print('replay names a proof obligation / correspondence, not an input:')
        print(json.dumps(payload, indent=1)[:3000])
        return 1
    c = payload['case']
    o = mod.run_impl(c)
    f = mod.oracle(c, o)
    print('case:', json.dumps(c))
    print('implementation observation:', json.dumps(o, default=_unser))
    if f is None:
        print('property oracle: holds on this case')
        return 0
    print('property oracle: FAILS:', json.dumps(f))
    print('VIOLATION property=%s replay=%s' % (mod.PROP, path))
    return 1


def validate_evidence(path):
    if json.load(open(path))["coverage"]["obligations"] == 0:
        return  # property under construction (no theorem file yet)
    try:
        import jsonschema
    except ImportError:
        return
    schema = json.load(open('/root/.vp/EVIDENCE.schema.json')) if os.path.exists('/root/.vp/EVIDENCE.schema.json') else None
    if schema:
        jsonschema.validate(json.load(open(path)), schema)
