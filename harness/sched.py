"""Controlled asyncio scheduler: a stock event loop that is never run_forever()-ed; the harness pops ONE ready
callback at a time and places environment events between callbacks."""
import asyncio


class Sched:
    def __init__(self):
        self.loop = asyncio.new_event_loop()
        self.loop_errors = []
        self.tasks = []
        self.loop.set_exception_handler(self._on_error)
        self.loop.set_task_factory(self._factory)
        asyncio.set_event_loop(self.loop)

    def _on_error(self, loop, context):
        if 'never retrieved' in context.get('message', ''):
            return          # garbage-collection time diagnostics: timing dependent, not behaviour
        self.loop_errors.append(context)

    def _factory(self, loop, coro, **kw):
        t = asyncio.Task(coro, loop=loop, **kw)
        self.tasks.append(t)
        return t

    def ready(self):
        return [h for h in self.loop._ready if not h._cancelled]

    def tick(self):
        """Run the first ready callback.  Returns False when nothing is ready."""
        ready = self.loop._ready
        while ready:
            h = ready.popleft()
            if h._cancelled:
                continue
            asyncio._set_running_loop(self.loop)
            try:
                h._run()
            finally:
                asyncio._set_running_loop(None)
            return True
        return False

    def new_failures(self):
        """Exceptions reported to the loop since the last call: failed tasks and callbacks that raised."""
        out = []
        for ctx in self.loop_errors:
            e = ctx.get('exception')
            if e is not None:
                out.append(e)
        self.loop_errors[:] = []
        for t in list(self.tasks):
            if t.done():
                self.tasks.remove(t)
                if not t.cancelled() and t.exception() is not None:
                    out.append(t.exception())
        return out

    def close(self):
        for t in self.tasks:
            if not t.done():
                t.cancel()
        # let cancellations run without reporting
        self.loop.set_exception_handler(lambda l, c: None)
        for _ in range(50):
            if not self.tick():
                break
        asyncio.set_event_loop(None)
        try:
            self.loop.close()
        except Exception:
            pass
