"""A persistable listener that takes a Bundle of the process at every RUNNING / WAITING entry and whenever it is told of a pause (module level so
that it is loadable when the bundle is restored)."""
import copy

import plumpy

BUNDLES = []
SAVING = [False]


class Saver(plumpy.ProcessListener):
    def on_process_running(self, process):
        if SAVING[0]:
            BUNDLES.append((len(process._sc_trace), plumpy.Bundle(process), copy.deepcopy(dict(process.outputs))))

    def on_process_waiting(self, process):
        if SAVING[0]:
            BUNDLES.append((len(process._sc_trace), plumpy.Bundle(process), copy.deepcopy(dict(process.outputs))))

    def on_process_paused(self, process):
        if SAVING[0]:
            BUNDLES.append((len(process._sc_trace), plumpy.Bundle(process), copy.deepcopy(dict(process.outputs))))
