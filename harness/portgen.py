"""Shared by C11 / C12 / C15: port-tree specs as JSON, real plumpy specs built from them, Gallina printers,
validator family, value domain."""
import json

from coqio import c_str, c_bool, c_list, c_opt, c_pair, c_val

TYPES = {'int': int, 'str': str, 'bool': bool, 'dict': dict, 'list': list, 'none': type(None)}
COQ_TY = {'int': 'TInt', 'str': 'TStr', 'bool': 'TBool', 'dict': 'TDict', 'list': 'TList', 'none': 'TNoneT'}


def _mapping(v):
    from collections.abc import Mapping
    return isinstance(v, Mapping)


VALIDATORS = {
    'rej_all': lambda v: True,
    'acc_all': lambda v: False,
    'rej_3': lambda v: (not isinstance(v, bool)) and isinstance(v, int) and v == 3,
    'rej_has_x': lambda v: _mapping(v) and 'x' in v,
    'rej_falsy': lambda v: not v,
}


def py_validator(vid):
    f = VALIDATORS[vid]

    def validator(value, port):
        return 'rejected by %s' % vid if f(value) else None
    validator.__name__ = vid
    return validator


# ------------------------------------------------------------ values
class Awaitable:
    """A plain value that happens to be awaitable (a ticket for a side job, say): a step may return it like any other value."""

    def __init__(self, kind):
        self.kind = kind

    def __await__(self):
        if self.kind == 'pending':
            import asyncio
            fut = asyncio.get_running_loop().create_future()
            return (yield from fut.__await__())
        return 'payload-of-the-awaitable'
        yield  # noqa: unreachable — makes this a generator function

    def __eq__(self, other):
        return isinstance(other, Awaitable) and other.kind == self.kind

    def __hash__(self):
        return hash(('Awaitable', self.kind))

    def __deepcopy__(self, memo):
        return Awaitable(self.kind)


def decode(v):
    """JSON -> Python value ({'__tuple__': [...]} -> tuple)."""
    if isinstance(v, dict):
        if set(v.keys()) == {'__awaitable__'}:
            return Awaitable(v['__awaitable__'])
        if set(v.keys()) == {'__tuple__'}:
            return tuple(decode(x) for x in v['__tuple__'])
        return {k: decode(x) for k, x in v.items()}
    if isinstance(v, list):
        return [decode(x) for x in v]
    return v


def encode(v):
    """Python value -> JSON with frozen dicts / tuples marked."""
    from plumpy.utils import Frozendict
    if isinstance(v, Awaitable):
        return {'__awaitable__': v.kind}
    if isinstance(v, Frozendict):
        return {'__frozen__': {k: encode(x) for k, x in v.items()}}
    if isinstance(v, dict):
        return {k: encode(x) for k, x in v.items()}
    if isinstance(v, tuple):
        return {'__tuple__': [encode(x) for x in v]}
    if isinstance(v, list):
        return [encode(x) for x in v]
    return v


def c_kvs(d):
    return c_list([c_pair(c_str(k), c_val(x)) for k, x in d.items()])


# ------------------------------------------------------------ port trees
def leaf(req=True, vt=None, dflt=('none',), vld=None, help=None):
    return {'k': 'leaf', 'req': req, 'vt': vt, 'dflt': list(dflt), 'vld': vld, 'help': help}


def ns(ports, req=True, vt=None, dflt=('none',), vld=None, dyn=False, pop=True, help=None):
    return {'k': 'ns', 'req': req, 'vt': vt, 'dflt': list(dflt), 'vld': vld, 'dyn': bool(dyn or vt is not None), 'pop': pop,
            'help': help, 'ports': [[n, p] for n, p in ports]}


def c_vt(vt):
    return c_opt(vt, lambda ts: c_list([COQ_TY[t] for t in ts]))


def c_dflt(d):
    if d[0] == 'none':
        return 'DNone'
    return '(%s %s)' % ('DVal' if d[0] == 'val' else 'DCall', c_val(d[1]))


def c_port(p, declared=False):
    """declared=True: the tree holds *declared* InputPort arguments (required_override still to be applied)"""
    if p['k'] == 'leaf' and declared:
        return '(input_leaf %s %s %s %s %s)' % (
            c_bool(p['req']), c_vt(p['vt']), c_dflt(p['dflt']), c_opt(p['vld'], c_str), c_opt(p.get('help'), c_str))
    if p['k'] == 'leaf':
        return '(PLeaf (mk_lattrs %s %s %s %s %s))' % (
            c_bool(p['req']), c_vt(p['vt']), c_dflt(p['dflt']), c_opt(p['vld'], c_str), c_opt(p.get('help'), c_str))
    ports = 'PNil'
    for n, q in reversed(p['ports']):
        ports = '(PCons %s %s %s)' % (c_str(n), c_port(q, declared), ports)
    return '(PNs (mk_nattrs %s %s %s %s %s %s %s) %s)' % (
        c_bool(p['req']), c_vt(p['vt']), c_dflt(p['dflt']), c_opt(p['vld'], c_str), c_bool(p['dyn']),
        c_bool(p['pop']), c_opt(p.get('help'), c_str), ports)


def py_vt(vt):
    if vt is None:
        return None
    ts = tuple(TYPES[t] for t in vt)
    return ts[0] if len(ts) == 1 else ts


class _Const:
    """a callable that is not a function: an instance with __call__"""

    def __init__(self, v):
        self.v = v

    def __call__(self):
        return self.v


def _identity(v):
    return v


_CALL_STYLE = [0]


def py_dflt(d):
    """'call' defaults are realised by every kind of callable in turn: a lambda, a functools.partial, an instance with __call__,
    and — when the value is an empty list / dict — the class itself used as a factory"""
    if d[0] == 'val':
        return decode(d[1])
    import functools
    v = decode(d[1])
    _CALL_STYLE[0] += 1
    k = _CALL_STYLE[0] % 4
    if k == 3 and v == [] and isinstance(v, list):
        return list
    if k == 3 and v == {} and isinstance(v, dict):
        return dict
    if k == 1:
        return functools.partial(_identity, v)
    if k == 2:
        return _Const(v)
    return lambda: v


def fill_namespace(spec, which, tree):
    """Populate spec.inputs / spec.outputs (which = 'input' | 'output') from a ns tree."""
    import plumpy
    top = spec.inputs if which == 'input' else spec.outputs
    top.required = tree['req']
    top.dynamic = tree['dyn']
    if tree['vt'] is not None:
        top.valid_type = py_vt(tree['vt'])
    if tree['vld'] is not None:
        top.validator = py_validator(tree['vld'])
    top.populate_defaults = tree['pop']
    if tree['dflt'][0] != 'none':
        top.default = py_dflt(tree['dflt'])
    if tree.get('help') is not None:
        top.help = tree['help']

    def add(prefix, ports):
        for n, p in ports:
            path = prefix + n
            if p['k'] == 'leaf':
                kw = dict(required=p['req'], valid_type=py_vt(p['vt']))
                if p['vld'] is not None:
                    kw['validator'] = py_validator(p['vld'])
                if p.get('help') is not None:
                    kw['help'] = p['help']
                if which == 'input':
                    if p['dflt'][0] != 'none':
                        kw['default'] = py_dflt(p['dflt'])
                    spec.input(path, **kw)
                else:
                    spec.output(path, **kw)
            else:
                kw = dict(required=p['req'], valid_type=py_vt(p['vt']), dynamic=p['dyn'], populate_defaults=p['pop'])
                if p['vld'] is not None:
                    kw['validator'] = py_validator(p['vld'])
                if p['dflt'][0] != 'none':
                    kw['default'] = py_dflt(p['dflt'])
                if p.get('help') is not None:
                    kw['help'] = p['help']
                (spec.input_namespace if which == 'input' else spec.output_namespace)(path, **kw)
                add(path + '.', p['ports'])
    add('', tree['ports'])


_N = [0]


def make_process_class(inputs=None, outputs=None, base=None, extra=None):
    """A fresh plumpy.Process subclass whose spec has the given input/output trees."""
    import plumpy
    base = base or plumpy.Process

    def define(cls, spec):
        super(klass, cls).define(spec)
        if inputs is not None:
            fill_namespace(spec, 'input', inputs)
        if outputs is not None:
            fill_namespace(spec, 'output', outputs)
    _N[0] += 1
    nsd = {'define': classmethod(define)}
    nsd.update(extra or {})
    klass = type('GenProc%d' % _N[0], (base,), nsd)
    return klass


def describe(portns):
    """Real PortNamespace -> JSON tree (for C15 observations)."""
    import plumpy
    from plumpy.ports import PortNamespace, UNSPECIFIED

    def vt(t):
        if t is None:
            return None
        ts = t if isinstance(t, tuple) else (t,)
        inv = {v: k for k, v in TYPES.items()}
        return [inv[x] for x in ts]

    def dflt(port):
        d = port._default if hasattr(port, '_default') else UNSPECIFIED
        if d is UNSPECIFIED:
            return ['none']
        if callable(d):
            return ['call', encode(d())]
        return ['val', encode(d)]

    def vld(port):
        return None if port.validator is None else port.validator.__name__

    def go(p):
        if isinstance(p, PortNamespace):
            return {'k': 'ns', 'req': p.required, 'vt': vt(p.valid_type), 'dflt': dflt(p), 'vld': vld(p),
                    'dyn': p.dynamic, 'pop': p.populate_defaults, 'help': p.help,
                    'ports': [[n, go(q)] for n, q in p.items()]}
        return {'k': 'leaf', 'req': p.required, 'vt': vt(p.valid_type), 'dflt': dflt(p), 'vld': vld(p), 'help': p.help}
    return go(portns)
