"""C17 — module-level Process / WorkChain classes and object loaders used by harness/props/c17.py.

They have to be module level so that the default object loader can identify / load them and pickle can
store their bundles.  Behaviour is controlled by the inputs (data), the executed steps are recorded in
the module-level EVENTS list (cleared by the harness before every task).
"""
import plumpy
from plumpy import WorkChain, Process

MODULE = __name__
EVENTS = []          # ('init', cls, pid) | ('step', pid, k) | ('run', pid)
NSTEPS = 3           # Steps / Other have steps 0 .. NSTEPS-1


class UserError(Exception):
    """Raised by scripted user code; identified by its tag (args[0])."""


class Add(Process):
    """One-step plain process: sum = a + b.  `a` is required (ints only)."""

    @classmethod
    def define(cls, spec):
        super().define(spec)
        spec.input('a', valid_type=int)
        spec.input('b', valid_type=int, default=1)
        spec.outputs.dynamic = True

    def on_create(self):
        super().on_create()
        EVENTS.append(('init', type(self).__name__, self.pid))

    def run(self):
        EVENTS.append(('step', self.pid, 0))
        self.out('sum', self.inputs.a + self.inputs.b)


class Steps(WorkChain):
    """Three-step workchain.  Step k records itself, then raises UserError('f<k>') if inputs.fail == k,
    or kills the process with message 'k<k>' if inputs.kill == k.  The last step outputs the list of the
    steps this *instance history* executed (kept in the context, so it survives a checkpoint)."""
    BASE = 0

    @classmethod
    def define(cls, spec):
        super().define(spec)
        spec.input('n', valid_type=int, default=0)
        spec.input('fail', valid_type=int, default=-1)
        spec.input('kill', valid_type=int, default=-1)
        spec.outputs.dynamic = True
        spec.outline(cls.s0, cls.s1, cls.s2)

    def on_create(self):
        super().on_create()
        EVENTS.append(('init', type(self).__name__, self.pid))

    def _do(self, k):
        EVENTS.append(('step', self.pid, k))
        self.ctx.setdefault('acc', []).append(k)
        if self.inputs.fail == k:
            raise UserError('f%d' % k)
        if self.inputs.kill == k:
            self.kill('k%d' % k)

    def on_finished(self):
        super().on_finished()
        if self.inputs.fail == 3:          # FINISHED has been entered and the future resolved: the outcome is nevertheless this failure
            raise UserError('f3')

    def s0(self):
        self._do(0)

    def s1(self):
        self._do(1)

    def s2(self):
        self._do(2)
        self.out('acc', list(self.ctx.acc))
        self.out('n', self.inputs.n + self.BASE)


class Other(Steps):
    """Same outline, observably different result (n + 100): a mix-up of classes shows in the reply."""
    BASE = 100

    @classmethod
    def define(cls, spec):
        super().define(spec)


class Unsavable(Process):
    """A process that runs fine but whose checkpoint cannot be written (implementation-only probe of C17: a task that asks
    for persistence must then be refused with that error, not executed unpersisted)."""

    def run(self):
        EVENTS.append(('step', self.pid, 0))
        return 1

    def save_instance_state(self, out_state, save_context):
        raise UserError('cannot be saved')


CLASSES = {'Add': Add, 'Steps': Steps, 'Other': Other}


class TableLoader(plumpy.DefaultObjectLoader):
    """A custom object loader: a finite map identifier -> class consulted first, the default scheme
    ('module:Name') for everything else (the plumpy internals saved inside a bundle — state classes,
    steppers — are identified by the default scheme).  identify_object is the reverse look-up (first
    entry naming the class), again falling back to the default scheme."""
    TABLE = {}

    def load_object(self, identifier):
        if identifier in self.TABLE:
            return CLASSES[self.TABLE[identifier]]
        return super().load_object(identifier)

    def identify_object(self, obj):
        for ident, name in self.TABLE.items():
            if obj is CLASSES[name]:
                return ident
        return super().identify_object(obj)


class NickLoader(TableLoader):
    """nicknames for the three classes"""
    TABLE = {'alpha': 'Add', 'beta': 'Steps', 'gamma': 'Other'}


class SwapLoader(TableLoader):
    """resolves the DEFAULT identifier of Steps to Other (and a nickname of its own): whether a name is
    resolved by this loader or by the default one is visible in the result"""
    TABLE = {MODULE + ':Steps': 'Other', 'beta': 'Other', 'delta': 'Steps'}


LOADERS = {'Nick': NickLoader, 'Swap': SwapLoader}
